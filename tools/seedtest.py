#!/usr/bin/env python3
"""Confirm and evaluate sub-agent seeded changes.

usage: tools/seedtest.py [--all-checks] C14 [C16 ...]
For each /tmp/seed_out/<ID>/patchN.diff (N=1,2):
  1. in the scratch worktree /tmp/seed/<ID>: patch applies, builds with and without verif-hooks, the
     existing test suite (demos moved aside) passes, the demo FAILS with the patch and PASSES without;
  2. apply the patch to /repo, run ./check <ID> quick (or every check with --all-checks) with outputs
     redirected, restore /repo;
  3. store it under /verif/seeded/<ID>-<N>/ (patch.diff, demo, notes, meta.json).
"""
import json, os, re, shutil, subprocess, sys, time

VERIF = '/verif'
OUT = '/tmp/ipt_seed_out'

def sh(cmd, cwd=None, env=None, timeout=3600):
    """Runs a shell command in its own process group; on timeout the whole group is killed (a mutant that makes the
    library loop for ever must not leave orphaned test or check processes behind)."""
    import signal
    e = dict(os.environ)
    if env: e.update(env)
    p = subprocess.Popen(cmd, shell=True, cwd=cwd, env=e, stdout=subprocess.PIPE, stderr=subprocess.PIPE, text=True, start_new_session=True)
    try:
        out, err = p.communicate(timeout=timeout)
        rc = p.returncode
    except subprocess.TimeoutExpired:
        try:
            os.killpg(p.pid, signal.SIGKILL)
        except ProcessLookupError:
            pass
        out, err = p.communicate()
        rc = 124
    class R: pass
    r = R(); r.returncode = rc; r.stdout = out or ''; r.stderr = err or ''
    return r


def tests_summary(out):
    p = sum(int(l.split()[3]) for l in out.splitlines() if l.startswith('test result'))
    f = sum(int(l.split()[5]) for l in out.splitlines() if l.startswith('test result'))
    return p, f

SCR = '/tmp/ipt_scratch'

def scratch_setup():
    """A private copy: worktree of /repo HEAD + copy of the harness pointing at it + own target dir."""
    os.makedirs(SCR, exist_ok=True)
    if not os.path.exists(f'{SCR}/repo'):
        sh(f'git -C /repo worktree add --detach {SCR}/repo HEAD')
    else:
        sh(f'git -C {SCR}/repo checkout -q --detach $(git -C /repo rev-parse HEAD) && git -C {SCR}/repo checkout -- .')
    sh(f'rm -rf {SCR}/harness && cp -r {VERIF}/harness {SCR}/harness')
    ct = open(f'{SCR}/harness/Cargo.toml').read().replace('path = "/repo"', f'path = "{SCR}/repo"')
    open(f'{SCR}/harness/Cargo.toml', 'w').write(ct)
    open(f'{SCR}/harness/.cargo/config.toml', 'w').write(f'[net]\noffline = true\n[build]\ntarget-dir = "{SCR}/target"\n')

def scratch_check(cid, tier='quick'):
    env = {'CARGO_NET_OFFLINE': 'true', 'CARGO_TARGET_DIR': f'{SCR}/target', 'VERIF_OUT': OUT, 'VERIF_NO_REGRESSIONS': '1',
           'VERIF_CLI_BIN': f'{SCR}/target/release/islamic_prayer_times'}
    b = sh('cargo build --release --offline 2>&1 | tail -3', cwd=f'{SCR}/harness', env=env)
    if cid == 'C19':
        sh(f'cargo build --release --offline --bin islamic_prayer_times --manifest-path {SCR}/repo/Cargo.toml 2>&1 | tail -3', env=env)
    return sh(f'{SCR}/target/release/ipt-verif {cid} {tier}', env=env)

def main():
    args = sys.argv[1:]
    allc = False
    scratch = False
    src = '/tmp/seed'
    tag = ''
    while args and args[0].startswith('--'):
        a = args.pop(0)
        if a == '--all-checks': allc = True
        elif a == '--scratch': scratch = True
        elif a == '--src': src = args.pop(0)
        elif a == '--tag': tag = args.pop(0) + '-'
        elif a == '--scr':
            global SCR
            SCR = args.pop(0)
    if scratch:
        scratch_setup()
    elif sh('git -C /repo status --porcelain').stdout.strip():
        print('refusing: /repo not clean'); sys.exit(2)
    os.makedirs(OUT, exist_ok=True)
    for pid in args:
        wt = f'{src}/{pid}'; od = f'{src}_out/{pid}'
        env = {'CARGO_TARGET_DIR': f'{wt}_target', 'CARGO_NET_OFFLINE': 'true'}
        for n in (1, 2):
            patch = f'{od}/patch{n}.diff'; demo = f'{od}/seed_demo_{n}.rs'
            if not (os.path.exists(patch) and os.path.exists(demo)):
                print(f'{pid}-{n}: missing patch or demo'); continue
            meta = {'property': pid, 'n': n, 'ran': []}
            needs = json.load(open(f'{VERIF}/seeded/needs.json')) if os.path.exists(f'{VERIF}/seeded/needs.json') else {}
            meta['needs'] = needs.get(f'{pid}-{tag}{n}', '')
            meta['breaks_property'] = pid
            sh('git checkout -- . ', cwd=wt)
            sh('git checkout -q --detach $(git -C /repo rev-parse HEAD)', cwd=wt)
            meta['base_commit'] = sh('git -C /repo rev-parse HEAD').stdout.strip()
            # move all demos aside, then install only this one when needed
            for f in os.listdir(f'{wt}/tests'):
                if f.startswith('seed_demo'): os.remove(f'{wt}/tests/{f}')
            r = sh(f'git apply {patch}', cwd=wt)
            if r.returncode != 0:
                print(f'{pid}-{n}: patch does not apply: {r.stderr[:200]}'); continue
            b1 = sh('cargo build --offline 2>&1 | tail -3', cwd=wt, env=env)
            b2 = sh('cargo build --offline --features verif-hooks 2>&1 | tail -3', cwd=wt, env=env)
            t = sh('cargo test --offline --no-fail-fast 2>&1', cwd=wt, env=env)
            p, f = tests_summary(t.stdout)
            meta['with_patch'] = {'build_ok': 'error' not in b1.stdout and 'error' not in b2.stdout, 'tests_passed': p, 'tests_failed': f}
            meta['ran'].append('cargo build --offline; cargo build --offline --features verif-hooks; cargo test --offline --no-fail-fast (patched worktree, demo absent)')
            shutil.copy(demo, f'{wt}/tests/seed_demo_{n}.rs')
            feat = '--features verif-hooks' if 'verif_hooks' in open(demo).read() or 'verif-hooks' in open(demo).read() else ''
            d1 = sh(f'cargo test --offline {feat} --test seed_demo_{n} 2>&1', cwd=wt, env=env)
            dp, df = tests_summary(d1.stdout)
            meta['demo_with_patch'] = {'passed': dp, 'failed': df, 'exit': d1.returncode}
            sh('git checkout -- src Cargo.toml', cwd=wt)
            d2 = sh(f'cargo test --offline {feat} --test seed_demo_{n} 2>&1', cwd=wt, env=env)
            dp2, df2 = tests_summary(d2.stdout)
            meta['demo_without_patch'] = {'passed': dp2, 'failed': df2, 'exit': d2.returncode}
            meta['ran'].append(f'cargo test --offline {feat} --test seed_demo_{n} with and without the patch')
            os.remove(f'{wt}/tests/seed_demo_{n}.rs')
            confirmed = (meta['with_patch']['build_ok'] and f == 0 and p >= 94 and d1.returncode != 0 and df >= 1
                         and d2.returncode == 0 and df2 == 0 and dp2 >= 1)
            meta['confirmed'] = confirmed
            # 2. my checks
            checks = [f'C{i:02d}' for i in range(1, 21)] if allc else [pid]
            meta['checks'] = {}
            old = f'{VERIF}/seeded/{pid}-{tag}{n}/meta.json'
            if os.path.exists(old):
                try:
                    for k, v in json.load(open(old)).get('checks', {}).items():
                        if k not in checks:
                            v['from_earlier_run'] = True
                            meta['checks'][k] = v
                except Exception:
                    pass
            target_repo = f'{SCR}/repo' if scratch else '/repo'
            r = sh(f'git -C {target_repo} apply {patch}')
            try:
                if r.returncode != 0:
                    print(f'{pid}-{n}: does not apply to {target_repo}'); continue
                for cid in checks:
                    t0 = time.time()
                    c = scratch_check(cid) if scratch else sh(f'{VERIF}/check {cid} quick', env={'VERIF_OUT': OUT, 'VERIF_NO_REGRESSIONS': '1'})
                    sig = [l.strip() for l in c.stdout.splitlines() if l.strip().startswith('signature:')]
                    meta['checks'][cid] = {'exit': c.returncode, 'signature': sig[:1], 'wall_s': round(time.time() - t0, 1)}
                    if cid == pid and c.returncode == 1:
                        for l in c.stdout.splitlines():
                            if l.startswith('VIOLATION') and 'replay=' in l:
                                rp = l.split('replay=')[1].strip()
                                if os.path.exists(rp) and not os.path.abspath(rp).startswith(f'{VERIF}/regressions/'):
                                    os.makedirs(f'{VERIF}/regressions/{cid}', exist_ok=True)
                                    shutil.copy(rp, f'{VERIF}/regressions/{cid}/seeded_{pid}-{tag}{n}.json')
            finally:
                sh(f'git -C {target_repo} checkout -- . ')
            meta['ran'].append('git -C /repo apply patch.diff; ./check <ID> quick (VERIF_OUT redirected); git -C /repo checkout -- .')
            dst = f'{VERIF}/seeded/{pid}-{tag}{n}'
            os.makedirs(dst, exist_ok=True)
            shutil.copy(patch, f'{dst}/patch.diff'); shutil.copy(demo, f'{dst}/seed_demo.rs')
            if os.path.exists(f'{od}/notes.md'): shutil.copy(f'{od}/notes.md', f'{dst}/agent_notes.md')
            json.dump(meta, open(f'{dst}/meta.json', 'w'), indent=1)
            caught = [k for k, v in meta['checks'].items() if v['exit'] == 1]
            print(f'{pid}-{tag}{n}: confirmed={confirmed} tests={p}/{f} demo_with={dp}/{df} demo_without={dp2}/{df2} caught_by={caught} target={meta["checks"].get(pid)}', flush=True)
    shutil.rmtree(OUT, ignore_errors=True)

if __name__ == '__main__':
    main()
