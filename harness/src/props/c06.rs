//! C06 A time is reported Invalid exactly when the solar event does not occur.

use chrono::NaiveDate;
use islamic_prayer_times::Prayer;
use proptest::prelude::*;
use serde::{Deserialize, Serialize};
use serde_json::json;

use super::common::*;
use crate::engine::{Failure, Prop, Stats, Tier};
use crate::gen::{self, ParamSpec, Site};
use crate::oracle::ephem;

pub struct C06;

#[derive(Clone, Debug, Hash, PartialEq, Eq, Serialize, Deserialize)]
pub struct Case {
    pub site: Site,
    pub method: u8,
    pub date: NaiveDate,
}

const BAND: f64 = 0.05;

impl Prop for C06 {
    type Case = Case;
    fn id(&self) -> &'static str {
        "C06"
    }
    fn cases(&self, tier: Tier) -> u64 {
        tier.pick(1_000_000, 40_000_000)
    }
    fn strategy(&self, _tier: Tier) -> BoxedStrategy<Case> {
        (gen::date(), gen::pick(&gen::ANGLE_METHODS))
            .prop_flat_map(|(date, method)| {
                let d = ephem::dec0(date, 0.0).abs();
                let (fa, ia, ima) = ParamSpec::plain(method).angles();
                let sign = any::<bool>().prop_map(|s| if s { 1.0 } else { -1.0 });
                let boundary = move |edge: f64| {
                    (-1.0..=1.0f64, sign.clone()).prop_map(move |(u, s): (f64, f64)| (s * (edge + u)).clamp(-89.5, 89.5)).boxed()
                };
                let lat = prop_oneof![
                    3 => -89.5..=89.5f64,
                    5 => (45.0..=89.5f64, any::<bool>()).prop_map(|(l, s)| if s { l } else { -l }),
                    2 => boundary(90.0 - d + 0.833),
                    2 => boundary(90.0 - d - 0.833),
                    2 => boundary(90.0 - d - fa),
                    2 => boundary(90.0 - d - ia),
                    1 => boundary(90.0 - d - fa - ima),
                    1 => prop_oneof![Just(89.5), Just(-89.5), Just(66.56), Just(-66.56)],
                ]
                .boxed();
                gen::site_lat(lat, 2.0).prop_map(move |site| Case { site, method, date })
            })
            .boxed()
    }
    fn self_test(&self) -> Result<(), String> {
        ephem::self_test()
    }
    fn check(&self, c: &Case, st: &mut Stats) -> Result<(), Failure> {
        st.eval();
        let spec = ParamSpec::plain(c.method);
        let (fa, ia, ima) = spec.angles();
        let k = spec.school_k();
        prime(&c.site, &spec, c.date, None, prime_selector(&c.site, c.date));
        let times = compute(&c.site, &spec, c.date, None);
        let (lat, gmt) = (c.site.lat.0, c.site.gmt.0);
        if !has_all_keys(&times) {
            return Err(Failure::new("missing-entries", "7 entries", gen::fmt_times(&times)));
        }
        if times[&Prayer::Dhuhr].is_err() {
            return Err(Failure::new("dhuhr-invalid", "Dhuhr always valid", gen::fmt_times(&times)));
        }
        let d0 = ephem::dec0(c.date, gmt);
        let (mx, mn) = (ephem::max_alt(lat, d0), ephem::min_alt(lat, d0));
        let events = [
            (Prayer::Fajr, "fajr", -fa),
            (Prayer::Isha, "isha", -ia),
            (Prayer::Imsaak, "imsaak", -(fa + ima)),
            (Prayer::Shurooq, "shurooq", -0.8333),
            (Prayer::Maghrib, "maghrib", -0.8333),
            (Prayer::Asr, "asr", ephem::asr_alt(k, lat, d0)),
        ];
        let mut decided = 0;
        let mut nonexist = 0;
        for (p, name, h) in events {
            let margin = (h - mn).min(mx - h);
            if margin.abs() < BAND {
                st.skip("extreme_altitude_within_0.05deg_of_defining_altitude");
                continue;
            }
            let should = margin > 0.0;
            let is = times[&p].is_ok();
            if margin.abs() < 0.5 {
                st.class("decision_within_0.5deg_of_boundary");
            }
            if should != is {
                let sig = if is { "fabricated" } else { "withheld" };
                return Err(Failure::new(
                    format!("{}:{}", sig, name),
                    format!(
                        "{} {} (defining altitude {:.3}, Sun's altitude range that day [{:.3}, {:.3}], declination {:.3})",
                        name,
                        if should { "reported" } else { "Invalid" },
                        h,
                        mn,
                        mx,
                        d0
                    ),
                    gen::fmt_times(&times),
                ));
            }
            decided += 1;
            if !should {
                nonexist += 1;
            }
        }
        st.class_n("decisions", decided);
        st.class_n("decisions_event_does_not_exist", nonexist);
        for p in gen::PRAYERS {
            if flagged(&times, p) == Some(true) {
                return Err(Failure::new("flagged-without-policy", "nothing flagged", gen::fmt_times(&times)));
            }
        }
        if decided > 0 {
            st.nontrivial(c);
        }
        if nonexist > 0 {
            st.class("case_with_nonexistent_event");
        }
        if lat.abs() > 66.56 {
            st.class("polar_latitude");
        }
        if lat < 0.0 {
            st.class("southern_hemisphere");
        }
        if st.want_sample() {
            st.sample(json!({"case": c, "declination": d0, "alt_range": [mn, mx], "result": gen::fmt_times(&times)}));
        }
        Ok(())
    }
    fn rule(&self) -> String {
        "generated (date mixture, one of the 6 angle methods, latitude up to +-89.5 with half the mass in 45-89.5 and atoms within 1 deg of the existence boundaries 90-|dec|+-0.833 and 90-|dec|-angle constructed from the oracle declination, GMT within 2 h). Each case yields up to 6 existence decisions. Every case is preceded by a priming call with a sibling input on the same thread. Non-trivial = at least one decision outside the 0.05 deg exemption band; distinct by hash of the case".into()
    }
    fn assumptions(&self) -> Vec<String> {
        vec![
            "an event of altitude h exists on the date iff |lat+dec|-90 <= h <= 90-|lat-dec| with dec the oracle declination at local 0h".into(),
            "decisions whose margin is below 0.05 deg are exempt, as the statement says".into(),
        ]
    }
    fn tolerances(&self) -> serde_json::Value {
        json!({"exemption_band_deg": BAND})
    }
}
