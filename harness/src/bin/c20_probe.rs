//! Diagnostic (not a registered check): measures the *real-valued* (sub-second) deviation of C20's unit steps in the
//! region where it is largest (|lat| = 45, largest twilight depression, around the local summer solstice), by
//! recovering the sub-second phase of each reported time through fractional minute offsets.
//! usage: c20_probe [year]

use chrono::NaiveDate;
use ipt_verif::engine::F;
use ipt_verif::gen::{secs, ParamSpec, Site};
use islamic_prayer_times::{prayer_times_dt, Prayer};

/// real-valued seconds after midnight of a prayer: the truncated second plus the phase found by bisection on a
/// fractional minute offset (offset o seconds makes the reported second increase exactly when frac + o >= 1)
fn real_time(site: &Site, method: u8, date: NaiveDate, prayer: Prayer, key: Prayer) -> Option<f64> {
    let eval = |off_s: f64| -> Option<i64> {
        let mut spec = ParamSpec::plain(method);
        let mut m = [F(0.0); 7];
        let idx = ipt_verif::gen::PRAYERS.iter().position(|p| *p == key).unwrap();
        m[idx] = F(off_s / 60.0);
        spec.minutes = Some(m);
        let t = prayer_times_dt(&spec.build(), site.location(), date, None);
        t[&prayer].ok().map(|pt| secs(pt.time))
    };
    let base = eval(0.0)?;
    // find smallest o in (0,1] with eval(o) == base+1 (mod day)
    let (mut lo, mut hi) = (0.0f64, 1.0f64);
    for _ in 0..14 {
        let mid = 0.5 * (lo + hi);
        let v = eval(mid)?;
        if (v - base).rem_euclid(86400) >= 1 {
            hi = mid;
        } else {
            lo = mid;
        }
    }
    Some(base as f64 + (1.0 - hi))
}

fn circ(a: f64, b: f64) -> f64 {
    let d = (a - b).rem_euclid(86400.0);
    if d > 43200.0 {
        d - 86400.0
    } else {
        d
    }
}

fn main() {
    let year: i32 = std::env::args().nth(1).and_then(|s| s.parse().ok()).unwrap_or(2023);
    let elev: f64 = std::env::args().nth(2).and_then(|s| s.parse().ok()).unwrap_or(0.0);
    let method_only: Option<u8> = std::env::args().nth(3).and_then(|s| s.parse().ok());
    let mut worst: Vec<(f64, String)> = Vec::new();
    let lats = [45.0, -45.0, 44.0, -44.0];
    let handles: Vec<_> = lats
        .iter()
        .map(|&lat| {
            std::thread::spawn(move || {
                let mut w: Vec<(f64, String)> = Vec::new();
                for method in [1u8, 2, 8].into_iter().filter(|m| method_only.map_or(true, |x| x == *m)) {
                    for doy in 0..365 {
                        let date = NaiveDate::from_ymd_opt(year, 1, 1).unwrap() + chrono::Duration::days(doy);
                        for k in (-10i32..=10).step_by(5) {
                            let lon = k as f64 * 15.0 + 3.0;
                            for g in [0.0f64, 1.5] {
                                let gmt = (k as f64 + g).clamp(-11.0, 11.0);
                                let site = Site { lat: F(lat), lon: F(lon), elev: F(elev), gmt: F(gmt) };
                                for (prayer, key) in [(Prayer::Imsaak, Prayer::Fajr), (Prayer::Fajr, Prayer::Fajr), (Prayer::Isha, Prayer::Isha)] {
                                    let Some(a) = real_time(&site, method, date, prayer, key) else { continue };
                                    for (meridian, d) in [(true, 1.0), (true, -1.0), (false, 1.0), (false, -1.0)] {
                                        let mut s2 = site;
                                        s2.gmt = F(gmt + d);
                                        if meridian {
                                            s2.lon = F(lon + 15.0 * d);
                                        }
                                        let Some(b) = real_time(&s2, method, date, prayer, key) else { continue };
                                        let want = if meridian { 0.0 } else { d * 3600.0 };
                                        if a + want < 120.0 || a + want > 86280.0 || b < 120.0 || b > 86280.0 {
                                            continue;
                                        }
                                        let e = circ(b, a + want).abs();
                                        if e > 8.5 {
                                            w.push((e, format!("lat {} lon {} gmt {} method {} {} {:?} meridian={} d={} -> {:.3} s", lat, lon, gmt, method, date, prayer, meridian, d, e)));
                                        }
                                    }
                                }
                            }
                        }
                    }
                }
                w
            })
        })
        .collect();
    for h in handles {
        worst.extend(h.join().unwrap());
    }
    worst.sort_by(|a, b| b.0.partial_cmp(&a.0).unwrap());
    println!("{} cases above 8.5 s; worst:", worst.len());
    for (_, s) in worst.iter().take(15) {
        println!("{}", s);
    }
}
