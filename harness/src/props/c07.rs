//! C07 Computing prayer times never panics or hangs on valid input.

use std::time::Duration;

use chrono::NaiveDate;
use proptest::prelude::*;
use serde::{Deserialize, Serialize};
use serde_json::json;

use super::common::*;
use crate::engine::{catch, Failure, Prop, Stats, Tier, F};
use crate::gen::{self, ParamSpec, Site, WeatherSpec, PRAYERS};

pub struct C07;

#[derive(Clone, Debug, Hash, PartialEq, Eq, Serialize, Deserialize)]
pub struct Case {
    pub site: Site,
    pub spec: ParamSpec,
    pub weather: Option<WeatherSpec>,
    pub date: NaiveDate,
    /// boundary-directed probe: Some(p) = additionally drive prayer PRAYERS[p] onto the midnight wrap by bisecting
    /// its minute offset and evaluate a fan of offsets (+-8 ulps) around the wrap under all four rounding modes
    #[serde(default)]
    pub boundary_probe: Option<u8>,
}

pub fn angle025() -> BoxedStrategy<Option<F>> {
    prop_oneof![
        3 => Just(None),
        1 => Just(Some(F(0.0))),
        5 => (0.0..=25.0f64).prop_map(|a| Some(F(a))),
        1 => prop_oneof![Just(Some(F(25.0))), Just(Some(F(18.0))), Just(Some(F(0.5)))],
    ]
    .boxed()
}
pub fn interval0180() -> BoxedStrategy<Option<F>> {
    prop_oneof![
        4 => Just(None),
        1 => Just(Some(F(0.0))),
        4 => (0.0..=180.0f64).prop_map(|a| Some(F(a))),
        1 => prop_oneof![Just(Some(F(180.0))), Just(Some(F(90.0))), Just(Some(F(1.0)))],
    ]
    .boxed()
}
pub fn minutes_opt(lim: f64) -> BoxedStrategy<Option<[F; 7]>> {
    let one = move || {
        prop_oneof![
            4 => Just(0.0),
            4 => -lim..=lim,
            1 => prop_oneof![Just(lim), Just(-lim), Just(1.0), Just(-1.0), Just(1440.0f64.min(lim)), Just(-(1440.0f64.min(lim)))],
            2 => (-(lim as i64)..=(lim as i64)).prop_map(|m| m as f64),
        ]
    };
    prop_oneof![
        2 => Just(None),
        3 => [one(), one(), one(), one(), one(), one(), one()].prop_map(|a| Some(a.map(F))),
    ]
    .boxed()
}
pub fn policy_lat() -> BoxedStrategy<f64> {
    prop_oneof![
        6 => -90.0..=90.0f64,
        2 => Just(48.5),
        1 => prop_oneof![Just(90.0), Just(-90.0), Just(0.0), Just(66.56), Just(-66.56)],
        2 => -50.0..=50.0f64,
    ]
    .boxed()
}

pub fn full_spec() -> BoxedStrategy<ParamSpec> {
    (
        0u8..9,
        (angle025(), angle025(), angle025()),
        (interval0180(), interval0180(), interval0180()),
        minutes_opt(1500.0),
        0u8..4,
        prop_oneof![Just(None), Just(Some(1u8)), Just(Some(2u8))],
        0u8..15,
        policy_lat(),
    )
        .prop_map(|(method, (fa, ia, ima), (fi, ii, imi), minutes, rounding, school, policy, plat)| ParamSpec {
            method,
            fajr_angle: fa,
            isha_angle: ia,
            imsaak_angle: ima,
            fajr_interval: fi,
            isha_interval: ii,
            imsaak_interval: imi,
            minutes,
            rounding,
            school,
            policy,
            policy_lat: F(plat),
        })
        .boxed()
}

pub fn full_site() -> BoxedStrategy<Site> {
    let lat = prop_oneof![
        8 => -90.0..=90.0f64,
        2 => prop_oneof![Just(90.0), Just(-90.0), Just(66.56), Just(-66.56), Just(0.0)],
        4 => (45.0..=90.0f64, any::<bool>()).prop_map(|(l, s)| if s { l } else { -l }),
        2 => (-1.5..=1.5f64, any::<bool>()).prop_map(|(d, s)| (66.56 + d) * if s { 1.0 } else { -1.0 }),
    ];
    let gmt = prop_oneof![
        4 => -12.0..=12.0f64,
        4 => (-12..=12i32).prop_map(|h| h as f64),
        1 => prop_oneof![Just(12.0), Just(-12.0), Just(5.5), Just(5.75), Just(-3.5)],
    ];
    (lat, gen::longitude(), gen::elevation(), gmt)
        .prop_map(|(lat, lon, elev, gmt)| Site { lat: F(lat), lon: F(lon), elev: F(elev), gmt: F(gmt) })
        .boxed()
}

impl Prop for C07 {
    type Case = Case;
    fn id(&self) -> &'static str {
        "C07"
    }
    fn cases(&self, tier: Tier) -> u64 {
        tier.pick(200_000, 3_000_000)
    }
    fn strategy(&self, _tier: Tier) -> BoxedStrategy<Case> {
        (full_site(), full_spec(), gen::weather_opt(), gen::date(), prop_oneof![30 => Just(None), 1 => (0u8..7).prop_map(Some)], 0u8..40)
            .prop_map(|(site, mut spec, weather, date, boundary_probe, k)| {
                // one case in 40: the substitute latitude is exactly the site's own latitude
                if k == 0 {
                    spec.policy_lat = site.lat;
                }
                Case { site, spec, weather, date, boundary_probe }
            })
            .boxed()
    }
    fn watchdog(&self) -> Option<Duration> {
        Some(Duration::from_secs(30))
    }
    fn hang_is_violation(&self) -> bool {
        true
    }
    fn check(&self, c: &Case, st: &mut Stats) -> Result<(), Failure> {
        check_case(c, st)
    }
    fn post(&self, tier: Tier, seed: u64) -> (serde_json::Value, Option<(Case, Failure)>) {
        if tier != Tier::Thorough {
            return (json!({"fuzz": "not part of the quick tier"}), None);
        }
        // hand-made seeds: interval method at the pole with each policy (the shape of defect D2)
        let mut seeds = Vec::new();
        for pol in 0u8..15 {
            let mut v = vec![0u8; 96];
            v[0] = 0; // latitude atom
            v[1] = 0; // 90 N
            v[20] = 7; // some method byte positions vary with consumption; harmless if off
            v[60] = pol;
            seeds.push(v);
        }
        let runs: u64 = std::env::var("VERIF_FUZZ_RUNS").ok().and_then(|s| s.parse().ok()).unwrap_or(400_000);
        let out = crate::fuzzrun::run("c07_nopanic", seed, runs, 192, &seeds, None);
        let mut ev = out.evidence;
        let mut confirmed = None;
        let mut unconfirmed = 0;
        for a in &out.artifacts {
            let Ok(bytes) = std::fs::read(a) else { continue };
            let case = crate::decode::c07_case(&bytes);
            let name = a.file_name().unwrap().to_string_lossy().to_string();
            if name.starts_with("timeout-") {
                // hang rule: re-run under the watchdog in this (release) process on a helper thread
                let c2 = case.clone();
                let (tx, rx) = std::sync::mpsc::channel();
                std::thread::spawn(move || {
                    let mut st = Stats::new(0);
                    let _ = tx.send(check_case(&c2, &mut st));
                });
                match rx.recv_timeout(Duration::from_secs(30)) {
                    Ok(Ok(())) => unconfirmed += 1,
                    Ok(Err(f)) => confirmed = Some((case, f)),
                    Err(_) => confirmed = Some((case, Failure::new("hang", "result within 30 s", "no result after 30 s (libFuzzer timeout artifact, reproduced by the release harness)"))),
                }
            } else {
                let mut st = Stats::new(0);
                match check_case(&case, &mut st) {
                    Ok(()) => unconfirmed += 1,
                    Err(f) => confirmed = Some((case, f)),
                }
            }
            if confirmed.is_some() {
                break;
            }
        }
        if let Some(o) = ev.get_mut("fuzz").and_then(|f| f.as_object_mut()) {
            o.insert("artifacts_not_confirmed_by_release_harness".into(), json!(unconfirmed));
        }
        (ev, confirmed)
    }
    fn rule(&self) -> String {
        "generated over the full product: latitude incl. +-90/+-66.56/0, longitude, elevation, GMT offset anywhere in [-12,12] (uncoupled), 9 methods x 15 policies (substitute latitude in [-90,90]) x 4 roundings x schools, angles [0,25], intervals [0,180], 7 minute offsets in [-1500,1500], weather, dates 1600-2399. One case in 31 additionally drives one prayer onto the midnight wrap by bisecting its minute offset (+-8 ulps, all four rounding modes); one in 40 uses a substitute latitude equal to the site's own. Non-trivial = at least one entry Invalid or flagged extreme (code paths beyond the happy path); distinct by hash of the case".into()
    }
    fn assumptions(&self) -> Vec<String> {
        vec![
            "a hang is reported only if a case exceeds 30 s (>= 500x the normal cost) and does so again when replayed in a fresh process; a single unconfirmed trip exits 2".into(),
            "panics are observed with catch_unwind in a release build (no overflow checks), as a user of the crate would build it".into(),
        ]
    }
}

pub fn check_case(c: &Case, st: &mut Stats) -> Result<(), Failure> {
    st.eval();
    let params = c.spec.build();
    let loc = c.site.location();
    let weather = c.weather.map(|w| w.build());
    let times = match catch(|| islamic_prayer_times::prayer_times_dt(&params, loc, c.date, weather)) {
        Ok(t) => t,
        Err(p) => {
            let (fi, ii, _) = c.spec.intervals();
            let tag = if fi != 0.0 || ii != 0.0 { "interval-method" } else { "angle-method" };
            return Err(Failure::new(format!("panic:{}:{}", tag, p), "a 7-entry result, no panic", p));
        }
    };
    if !has_all_keys(&times) {
        return Err(Failure::new("missing-entries", "exactly the 7 entries", gen::fmt_times(&times)));
    }
    let mut any_invalid = false;
    let mut any_extreme = false;
    for p in PRAYERS {
        match times[&p] {
            Ok(pt) => any_extreme |= pt.extreme,
            Err(()) => any_invalid = true,
        }
    }
    if any_invalid || any_extreme {
        st.nontrivial(c);
    }
    if any_invalid {
        st.class("some_entry_invalid");
    }
    if any_extreme {
        st.class("some_entry_extreme");
    }
    let (fi, ii, _) = c.spec.intervals();
    if (fi != 0.0 || ii != 0.0) && any_invalid {
        st.class("interval_method_with_invalid_entry");
    }
    if fi != 0.0 || ii != 0.0 {
        st.class("interval_defined_fajr_or_isha");
    }
    if c.site.lat.0.abs() > 66.56 {
        st.class("polar_latitude");
    }
    if c.site.lat.0.abs() == 90.0 {
        st.class("pole_exactly");
    }
    st.class(POLICY_CLASS[c.spec.policy as usize]);
    if st.want_sample() {
        st.sample(json!({"case": c, "result": gen::fmt_times(&times)}));
    }
    if let Some(p) = c.boundary_probe {
        boundary_probe(c, p as usize % 7, st)?;
    }
    Ok(())
}

/// Drives one prayer onto the 24:00 -> 00:00 wrap by bisecting its minute offset (down to adjacent f64 values), then
/// evaluates offsets within +-8 ulps of the wrap under every rounding mode: still no panic, still 7 entries, and the
/// prayer within a minute of midnight. Random generation never lands within picoseconds of the wrap; this does.
fn boundary_probe(c: &Case, p: usize, st: &mut Stats) -> Result<(), Failure> {
    // the nearest-good-day search costs up to 60 ms per call at high latitude: keep the probe (~130 calls) cheap
    if (c.spec.policy == gen::P_NGD_ALL || c.spec.policy == gen::P_NGD_FI_INV) && c.site.lat.0.abs() > 45.0 {
        st.skip("boundary_probe_skipped_for_costly_policy");
        return Ok(());
    }
    let prayer = PRAYERS[p];
    let key = if p == 0 { 1 } else { p }; // Imsaak is moved through the Fajr key
    let loc = c.site.location();
    let weather = c.weather.map(|w| w.build());
    let eval = |x: f64, rounding: u8| -> Result<Option<i64>, String> {
        let mut spec = c.spec.clone();
        let mut m = spec.minutes.unwrap_or([F(0.0); 7]);
        m[key] = F(x);
        spec.minutes = Some(m);
        spec.rounding = rounding;
        let params = spec.build();
        let t = catch(|| islamic_prayer_times::prayer_times_dt(&params, loc, c.date, weather))?;
        if !has_all_keys(&t) {
            return Err("missing entries".into());
        }
        Ok(t[&prayer].ok().map(|pt| gen::secs(pt.time)))
    };
    let fail = |x: f64, r: u8, what: String| {
        Failure::new(
            format!("panic:boundary-probe:{}", what.split(':').next().unwrap_or("")),
            "a 7-entry result, no panic, for a minute offset that puts the time at the midnight wrap",
            format!("{} with minutes[{}] = {:?} (bits {:#x}), rounding {}", what, gen::PRAYER_NAMES[key], x, x.to_bits(), gen::ROUNDING_NAMES[r as usize]),
        )
    };
    let t0 = match eval(0.0, 0) {
        Ok(Some(t)) => t,
        Ok(None) => {
            st.skip("boundary_probe_prayer_invalid");
            return Ok(());
        }
        Err(e) => return Err(fail(0.0, 0, e)),
    };
    // offset (minutes) that moves the time to ~24:00:00, kept inside [-1500, 1500]
    let x0 = (86400 - t0) as f64 / 60.0;
    let (mut lo, mut hi) = (x0 - 0.05, x0 + 0.05);
    let before = |v: Option<i64>| v.map_or(true, |t| t > 43200);
    match (eval(lo, 0), eval(hi, 0)) {
        (Ok(a), Ok(b)) if before(a) && !before(b) => {}
        (Err(e), _) => return Err(fail(lo, 0, e)),
        (_, Err(e)) => return Err(fail(hi, 0, e)),
        _ => {
            st.skip("boundary_probe_bracket_not_found");
            return Ok(());
        }
    }
    for _ in 0..80 {
        let mid = 0.5 * (lo + hi);
        if mid <= lo || mid >= hi {
            break;
        }
        match eval(mid, 0) {
            Ok(v) => {
                if before(v) {
                    lo = mid;
                } else {
                    hi = mid;
                }
            }
            Err(e) => return Err(fail(mid, 0, e)),
        }
    }
    let step = |x: f64, k: i64| f64::from_bits((x.to_bits() as i64 + k) as u64);
    for k in -8i64..=8 {
        for base in [lo, hi] {
            let x = step(base, k);
            for r in 0u8..4 {
                st.eval();
                match eval(x, r) {
                    Ok(Some(t)) => {
                        let d = gen::circ_diff(t, 0).abs();
                        if d > 61 {
                            return Err(fail(x, r, format!("time {} is not within a minute of midnight", hms(t))));
                        }
                    }
                    Ok(None) => return Err(fail(x, r, "entry became Invalid".into())),
                    Err(e) => return Err(fail(x, r, e)),
                }
            }
        }
    }
    st.class("boundary_probe_at_midnight_wrap_done");
    Ok(())
}

const POLICY_CLASS: [&str; 15] = [
    "policy_None",
    "policy_AngleBased",
    "policy_NearestLatitudeAllPrayersAlways",
    "policy_NearestLatitudeFajrIshaAlways",
    "policy_NearestLatitudeFajrIshaInvalid",
    "policy_NearestGoodDayAllPrayersAlways",
    "policy_NearestGoodDayFajrIshaInvalid",
    "policy_SeventhOfNightFajrIshaAlways",
    "policy_SeventhOfNightFajrIshaInvalid",
    "policy_SeventhOfDayFajrIshaAlways",
    "policy_SeventhOfDayFajrIshaInvalid",
    "policy_HalfOfNightFajrIshaAlways",
    "policy_HalfOfNightFajrIshaInvalid",
    "policy_MinutesFromMaghribFajrIshaAlways",
    "policy_MinutesFromMaghribFajrIshaInvalid",
];
