//! Shared generators (DESIGN section 6 vocabulary) and the plain-data specs from which
//! library values are constructed. Everything random is a proptest strategy.

use chrono::{Datelike, NaiveDate};
use islamic_prayer_times::{
    AsrShadowRatio, Coordinates, Elevation, ExtremeLatitudeMethod, Gmt, Latitude, Location, Longitude, Method,
    Params, Prayer, Pressure, RoundSeconds, Temperature, Weather,
};
use proptest::prelude::*;
use serde::{Deserialize, Serialize};

use crate::engine::F;

pub const PRAYERS: [Prayer; 7] =
    [Prayer::Imsaak, Prayer::Fajr, Prayer::Shurooq, Prayer::Dhuhr, Prayer::Asr, Prayer::Maghrib, Prayer::Isha];
pub const PRAYER_NAMES: [&str; 7] = ["Imsaak", "Fajr", "Shurooq", "Dhuhr", "Asr", "Maghrib", "Isha"];

pub const METHODS: [Method; 9] = [
    Method::None,
    Method::Egyptian,
    Method::Egypt,
    Method::Shafi,
    Method::Hanafi,
    Method::Isna,
    Method::Mwl,
    Method::UmmAlQurra,
    Method::FixedIsha,
];
pub const METHOD_NAMES: [&str; 9] =
    ["None", "Egyptian", "Egypt", "Shafi", "Hanafi", "Isna", "Mwl", "UmmAlQurra", "FixedIsha"];
/// indices of the six angle-based named methods
pub const ANGLE_METHODS: [u8; 6] = [1, 2, 3, 4, 5, 6];
/// indices of the 8 named methods (everything but Method::None)
pub const NAMED_METHODS: [u8; 8] = [1, 2, 3, 4, 5, 6, 7, 8];

pub const POLICY_NAMES: [&str; 15] = [
    "None",
    "AngleBased",
    "NearestLatitudeAllPrayersAlways",
    "NearestLatitudeFajrIshaAlways",
    "NearestLatitudeFajrIshaInvalid",
    "NearestGoodDayAllPrayersAlways",
    "NearestGoodDayFajrIshaInvalid",
    "SeventhOfNightFajrIshaAlways",
    "SeventhOfNightFajrIshaInvalid",
    "SeventhOfDayFajrIshaAlways",
    "SeventhOfDayFajrIshaInvalid",
    "HalfOfNightFajrIshaAlways",
    "HalfOfNightFajrIshaInvalid",
    "MinutesFromMaghribFajrIshaAlways",
    "MinutesFromMaghribFajrIshaInvalid",
];
pub const P_NONE: u8 = 0;
pub const P_ANGLE: u8 = 1;
pub const P_NL_ALL: u8 = 2;
pub const P_NL_FI_ALWAYS: u8 = 3;
pub const P_NL_FI_INV: u8 = 4;
pub const P_NGD_ALL: u8 = 5;
pub const P_NGD_FI_INV: u8 = 6;
pub const P_7N_ALWAYS: u8 = 7;
pub const P_7N_INV: u8 = 8;
pub const P_7D_ALWAYS: u8 = 9;
pub const P_7D_INV: u8 = 10;
pub const P_HALF_ALWAYS: u8 = 11;
pub const P_HALF_INV: u8 = 12;
pub const P_MIN_ALWAYS: u8 = 13;
pub const P_MIN_INV: u8 = 14;

pub fn policy(idx: u8, lat: f64) -> ExtremeLatitudeMethod {
    use ExtremeLatitudeMethod::*;
    let l = Latitude::try_from(lat).expect("policy latitude in range");
    match idx {
        0 => None,
        1 => AngleBased,
        2 => NearestLatitudeAllPrayersAlways(l),
        3 => NearestLatitudeFajrIshaAlways(l),
        4 => NearestLatitudeFajrIshaInvalid(l),
        5 => NearestGoodDayAllPrayersAlways,
        6 => NearestGoodDayFajrIshaInvalid,
        7 => SeventhOfNightFajrIshaAlways,
        8 => SeventhOfNightFajrIshaInvalid,
        9 => SeventhOfDayFajrIshaAlways,
        10 => SeventhOfDayFajrIshaInvalid,
        11 => HalfOfNightFajrIshaAlways,
        12 => HalfOfNightFajrIshaInvalid,
        13 => MinutesFromMaghribFajrIshaAlways,
        14 => MinutesFromMaghribFajrIshaInvalid,
        _ => panic!("bad policy index"),
    }
}
pub fn policy_is_always(idx: u8) -> bool {
    matches!(idx, 2 | 3 | 5 | 7 | 9 | 11 | 13)
}
pub fn policy_fajr_isha_only(idx: u8) -> bool {
    !matches!(idx, 0 | 2 | 5)
}
pub fn policy_is_invalid_kind(idx: u8) -> bool {
    matches!(idx, 4 | 6 | 8 | 10 | 12 | 14)
}
pub fn policy_consumes_intervals(idx: u8) -> bool {
    matches!(idx, 11 | 12 | 14)
}

pub fn rounding(idx: u8) -> RoundSeconds {
    match idx {
        0 => RoundSeconds::None,
        1 => RoundSeconds::NormalRounding,
        2 => RoundSeconds::SpecialRounding,
        3 => RoundSeconds::AggressiveRounding,
        _ => panic!("bad rounding index"),
    }
}
pub const ROUNDING_NAMES: [&str; 4] = ["None", "Normal", "Special", "Aggressive"];

/// A site: plain numbers (validated when the library value is built).
#[derive(Clone, Copy, Debug, Hash, PartialEq, Eq, Serialize, Deserialize)]
pub struct Site {
    pub lat: F,
    pub lon: F,
    pub elev: F,
    pub gmt: F,
}

impl Site {
    pub fn coords(&self) -> Coordinates {
        Coordinates::new(
            Latitude::try_from(self.lat.0).expect("lat"),
            Longitude::try_from(self.lon.0).expect("lon"),
            Elevation::try_from(self.elev.0).expect("elev"),
        )
    }
    pub fn location(&self) -> Location {
        Location { coords: self.coords(), gmt: Gmt::try_from(self.gmt.0).expect("gmt") }
    }
}

/// Parameter spec: a method plus optional overrides of its numeric fields and policies.
#[derive(Clone, Debug, Hash, PartialEq, Eq, Serialize, Deserialize)]
pub struct ParamSpec {
    pub method: u8,
    pub fajr_angle: Option<F>,
    pub isha_angle: Option<F>,
    pub imsaak_angle: Option<F>,
    pub fajr_interval: Option<F>,
    pub isha_interval: Option<F>,
    pub imsaak_interval: Option<F>,
    /// minute offsets in PRAYERS order
    pub minutes: Option<[F; 7]>,
    pub rounding: u8,
    /// None = the method's school, Some(1)=Shafi, Some(2)=Hanafi
    pub school: Option<u8>,
    pub policy: u8,
    pub policy_lat: F,
}

impl ParamSpec {
    pub fn plain(method: u8) -> Self {
        ParamSpec {
            method,
            fajr_angle: None,
            isha_angle: None,
            imsaak_angle: None,
            fajr_interval: None,
            isha_interval: None,
            imsaak_interval: None,
            minutes: None,
            rounding: 0,
            school: None,
            policy: P_NONE,
            policy_lat: F(48.5),
        }
    }
    pub fn build(&self) -> Params {
        let mut p = Params::new(METHODS[self.method as usize]);
        if let Some(a) = self.fajr_angle {
            p.angles.insert(Prayer::Fajr, a.0);
        }
        if let Some(a) = self.isha_angle {
            p.angles.insert(Prayer::Isha, a.0);
        }
        if let Some(a) = self.imsaak_angle {
            p.angles.insert(Prayer::Imsaak, a.0);
        }
        if let Some(a) = self.fajr_interval {
            p.intervals.insert(Prayer::Fajr, a.0);
        }
        if let Some(a) = self.isha_interval {
            p.intervals.insert(Prayer::Isha, a.0);
        }
        if let Some(a) = self.imsaak_interval {
            p.intervals.insert(Prayer::Imsaak, a.0);
        }
        if let Some(m) = self.minutes {
            for (i, pr) in PRAYERS.iter().enumerate() {
                p.minutes.insert(*pr, m[i].0);
            }
        }
        p.round_seconds = rounding(self.rounding);
        match self.school {
            Some(1) => p.asr_shadow_ratio = AsrShadowRatio::Shafi,
            Some(2) => p.asr_shadow_ratio = AsrShadowRatio::Hanafi,
            _ => {}
        }
        p.extreme_latitude_method = policy(self.policy, self.policy_lat.0);
        p
    }
    /// effective Fajr/Isha/Imsaak angles after overrides
    pub fn angles(&self) -> (f64, f64, f64) {
        let p = Params::new(METHODS[self.method as usize]);
        (
            self.fajr_angle.map(|x| x.0).unwrap_or(p.angles[&Prayer::Fajr]),
            self.isha_angle.map(|x| x.0).unwrap_or(p.angles[&Prayer::Isha]),
            self.imsaak_angle.map(|x| x.0).unwrap_or(p.angles[&Prayer::Imsaak]),
        )
    }
    pub fn intervals(&self) -> (f64, f64, f64) {
        let p = Params::new(METHODS[self.method as usize]);
        (
            self.fajr_interval.map(|x| x.0).unwrap_or(p.intervals[&Prayer::Fajr]),
            self.isha_interval.map(|x| x.0).unwrap_or(p.intervals[&Prayer::Isha]),
            self.imsaak_interval.map(|x| x.0).unwrap_or(p.intervals[&Prayer::Imsaak]),
        )
    }
    pub fn school_k(&self) -> f64 {
        match self.school {
            Some(2) => 2.0,
            Some(1) => 1.0,
            _ => {
                if self.method == 4 {
                    2.0
                } else {
                    1.0
                }
            }
        }
    }
}

#[derive(Clone, Copy, Debug, Hash, PartialEq, Eq, Serialize, Deserialize)]
pub struct WeatherSpec {
    pub pressure: F,
    pub temperature: F,
}
impl WeatherSpec {
    pub fn build(&self) -> Weather {
        Weather {
            pressure: Pressure::try_from(self.pressure.0).expect("pressure"),
            temperature: Temperature::try_from(self.temperature.0).expect("temperature"),
        }
    }
}

pub fn weather_opt() -> BoxedStrategy<Option<WeatherSpec>> {
    prop_oneof![
        3 => Just(None),
        4 => (100.0..=1050.0f64, -90.0..=57.0f64).prop_map(|(p, t)| Some(WeatherSpec { pressure: F(p), temperature: F(t) })),
        1 => (prop_oneof![Just(100.0), Just(1050.0)], prop_oneof![Just(-90.0), Just(57.0)])
            .prop_map(|(p, t)| Some(WeatherSpec { pressure: F(p), temperature: F(t) })),
        1 => Just(Some(WeatherSpec { pressure: F(1010.0), temperature: F(14.0) })),
    ]
    .boxed()
}

// ---------------------------------------------------------------- dates

pub fn ymd(y: i32, m: u32, d: u32) -> NaiveDate {
    NaiveDate::from_ymd_opt(y, m, d).unwrap()
}
pub const DATE_LO: (i32, u32, u32) = (1600, 1, 1);
pub const DATE_HI: (i32, u32, u32) = (2399, 12, 31);
pub fn date_lo() -> NaiveDate {
    ymd(1600, 1, 1)
}
pub fn date_hi() -> NaiveDate {
    ymd(2399, 12, 31)
}
pub fn n_dates() -> i64 {
    (date_hi() - date_lo()).num_days() + 1
}
pub fn date_from_index(i: i64) -> NaiveDate {
    date_lo() + chrono::Duration::days(i)
}
pub fn clamp_date(d: NaiveDate) -> NaiveDate {
    d.clamp(date_lo(), date_hi())
}
pub fn is_leap(y: i32) -> bool {
    (y % 4 == 0 && y % 100 != 0) || y % 400 == 0
}

fn year() -> impl Strategy<Value = i32> {
    prop_oneof![
        6 => 1600..=2399i32,
        1 => prop_oneof![Just(1600), Just(1700), Just(1800), Just(1900), Just(2000), Just(2100), Just(2200), Just(2300)],
        1 => (400..=599i32).prop_map(|q| q * 4),
        1 => 2000..=2030i32,
    ]
}

fn window(m: u32, d: u32, before: i64, after: i64) -> BoxedStrategy<NaiveDate> {
    (year(), -before..=after)
        .prop_map(move |(y, off)| clamp_date(ymd(y, m, d) + chrono::Duration::days(off)))
        .boxed()
}

/// The date mixture of DESIGN section 6.
pub fn date() -> BoxedStrategy<NaiveDate> {
    let n = n_dates();
    prop_oneof![
        40 => (0..n).prop_map(date_from_index),
        20 => window(3, 20, 3, 4),   // RA wrap Mar 17-24
        8 => window(9, 22, 3, 4),    // Sep 19-26
        10 => window(1, 1, 5, 4),    // Dec 27 - Jan 5
        10 => window(3, 1, 4, 2),    // Feb 25 - Mar 3 (Feb 29 when leap)
        4 => window(6, 21, 5, 5),
        3 => window(12, 21, 5, 5),
        5 => prop_oneof![(0..10i64).prop_map(date_from_index), (0..10i64).prop_map(move |i| date_from_index(n - 1 - i))],
    ]
    .boxed()
}

pub fn is_ra_wrap_window(d: NaiveDate) -> bool {
    d.month() == 3 && (17..=24).contains(&d.day())
}
pub fn is_year_end_window(d: NaiveDate) -> bool {
    (d.month() == 12 && d.day() >= 27) || (d.month() == 1 && d.day() <= 5)
}
pub fn is_leap_window(d: NaiveDate) -> bool {
    (d.month() == 2 && d.day() >= 25) || (d.month() == 3 && d.day() <= 3)
}

// ---------------------------------------------------------------- sites

/// latitude mixture with |lat| <= latmax
pub fn latitude(latmax: f64) -> BoxedStrategy<f64> {
    let lm = latmax;
    let mut alts: Vec<(u32, BoxedStrategy<f64>)> = vec![
        (40, (-lm..=lm).boxed()),
        (12, (0.0..=3.0f64, any::<bool>()).prop_map(move |(d, s)| if s { lm - d } else { -(lm - d) }).boxed()),
        (3, Just(0.0).boxed()),
        (8, (-0.5..=0.5f64, any::<bool>()).prop_map(move |(d, s)| ((23.44 + d) * if s { 1.0 } else { -1.0 }).clamp(-lm, lm)).boxed()),
        (3, prop_oneof![Just(lm), Just(-lm)].boxed()),
        (6, (-lm.min(35.0)..=lm.min(35.0)).boxed()),
    ];
    if lm >= 67.56 {
        alts.push((8, (-1.0..=1.0f64, any::<bool>()).prop_map(|(d, s)| (66.56 + d) * if s { 1.0 } else { -1.0 }).boxed()));
    }
    if lm >= 90.0 {
        alts.push((3, prop_oneof![Just(90.0), Just(-90.0)].boxed()));
    }
    proptest::strategy::Union::new_weighted(alts).boxed()
}

pub fn longitude() -> BoxedStrategy<f64> {
    prop_oneof![
        12 => -180.0..=180.0f64,
        1 => prop_oneof![Just(180.0), Just(-180.0), Just(0.0)],
        2 => (-24..=24i32).prop_map(|k| k as f64 * 7.5),
    ]
    .boxed()
}

pub fn elevation() -> BoxedStrategy<f64> {
    prop_oneof![
        4 => Just(0.0),
        8 => -420.0..=8848.0f64,
        1 => prop_oneof![Just(-420.0), Just(8848.0)],
        4 => 0.0..=2500.0f64,
    ]
    .boxed()
}

/// gmt offset within `mismatch` hours of lon/15, constructed (not filtered), clamped to [-12,12]
pub fn gmt_for(lon: f64, mismatch: f64) -> BoxedStrategy<f64> {
    let base = lon / 15.0;
    let m = mismatch;
    prop_oneof![
        4 => (-m..=m).prop_map(move |u| (base + u).clamp(-12.0, 12.0)),
        5 => (-m..=m).prop_map(move |u| {
            let lo = (base - m).max(-12.0);
            let hi = (base + m).min(12.0);
            let r = (base + u).round();
            // keep the rounded value inside the mismatch window
            if r < lo { lo.ceil().min(hi) } else if r > hi { hi.floor().max(lo) } else { r }
        }),
        1 => (-m..=m, prop_oneof![Just(0.5), Just(0.75), Just(0.25)]).prop_map(move |(u, q)| {
            let lo = (base - m).max(-12.0);
            let hi = (base + m).min(12.0);
            ((base + u).floor() + q).clamp(lo, hi)
        }),
    ]
    .boxed()
}

pub fn site(latmax: f64, mismatch: f64) -> BoxedStrategy<Site> {
    (latitude(latmax), longitude(), elevation())
        .prop_flat_map(move |(lat, lon, elev)| {
            gmt_for(lon, mismatch).prop_map(move |gmt| Site { lat: F(lat), lon: F(lon), elev: F(elev), gmt: F(gmt) })
        })
        .boxed()
}

pub fn site_lat(lat: BoxedStrategy<f64>, mismatch: f64) -> BoxedStrategy<Site> {
    (lat, longitude(), elevation())
        .prop_flat_map(move |(lat, lon, elev)| {
            gmt_for(lon, mismatch).prop_map(move |gmt| Site { lat: F(lat), lon: F(lon), elev: F(elev), gmt: F(gmt) })
        })
        .boxed()
}

pub fn pick<T: Clone + std::fmt::Debug + 'static>(items: &'static [T]) -> BoxedStrategy<T> {
    proptest::sample::select(items).boxed()
}

// ---------------------------------------------------------------- clock arithmetic

use chrono::{NaiveTime, Timelike};

pub fn secs(t: NaiveTime) -> i64 {
    t.num_seconds_from_midnight() as i64
}
/// (a - b) on the circle, in (-43200, 43200]
pub fn circ_diff(a: i64, b: i64) -> i64 {
    let d = (a - b).rem_euclid(86400);
    if d > 43200 {
        d - 86400
    } else {
        d
    }
}
/// (a - b) mod 24h in [0,86400)
pub fn fwd(a: i64, b: i64) -> i64 {
    (a - b).rem_euclid(86400)
}

pub type Times = std::collections::BTreeMap<Prayer, Result<islamic_prayer_times::PrayerTime, ()>>;

pub fn fmt_times(t: &Times) -> String {
    let mut s = String::new();
    for p in PRAYERS {
        match t.get(&p) {
            Some(Ok(pt)) => s.push_str(&format!("{:?}={}{} ", p, pt.time, if pt.extreme { "*" } else { "" })),
            Some(Err(())) => s.push_str(&format!("{:?}=Invalid ", p)),
            None => s.push_str(&format!("{:?}=MISSING ", p)),
        }
    }
    s
}

// ---------------------------------------------------------------- boundary-directed: the RA wrap

/// JD (UT) at which the Sun's apparent right ascension wraps 360 -> 0 in March of `year`, from the independent
/// ephemeris (bisection); cached. The library's own RA differs from the oracle's by ~0.003 deg, i.e. its wrap is
/// within ~5 minutes of this instant.
pub fn ra_wrap_jd(year: i32) -> f64 {
    use std::sync::OnceLock;
    static TABLE: OnceLock<Vec<f64>> = OnceLock::new();
    let t = TABLE.get_or_init(|| {
        (1600..=2399)
            .map(|y| {
                let f = |jd: f64| crate::oracle::ephem::norm180(crate::oracle::ephem::sun(jd).ra);
                let mut lo = crate::oracle::ephem::jdn(y as i64, 3, 15) as f64;
                let mut hi = crate::oracle::ephem::jdn(y as i64, 3, 25) as f64;
                for _ in 0..60 {
                    let mid = 0.5 * (lo + hi);
                    if f(mid) < 0.0 {
                        lo = mid;
                    } else {
                        hi = mid;
                    }
                }
                0.5 * (lo + hi)
            })
            .collect()
    });
    t[(year.clamp(1600, 2399) - 1600) as usize]
}

/// (site, date) pairs whose *local midnight* (the instant the library evaluates the day's ephemeris at) lies within
/// `window_min` minutes of the RA wrap of a generated year, or exactly one day before/after it (the library also
/// evaluates day-1 and day+1). The GMT offset is constructed from the wrap instant, the longitude from the offset
/// (within `mismatch` hours), so nothing is filtered. Random dates never come this close to the wrap.
pub fn ra_wrap_site_date(latmax: f64, mismatch: f64, window_min: f64) -> BoxedStrategy<(Site, NaiveDate)> {
    (1600..=2399i32, -window_min..=window_min, latitude(latmax), -mismatch..=mismatch, -1i64..=1, elevation())
        .prop_map(|(year, u, lat, v, shift, elev)| {
            let t = ra_wrap_jd(year) + u / 1440.0;
            // UT date whose 0h is just before t, offset so that local midnight == t; move to the next date if the offset leaves [-12,12]
            let mut d0 = (t + 0.5).floor() - 0.5;
            let mut gmt = 24.0 * (d0 - t);
            if gmt < -12.0 {
                d0 += 1.0;
                gmt += 24.0;
            }
            let jdn = (d0 + 0.5).round() as i64;
            let date = NaiveDate::from_num_days_from_ce_opt((jdn - 1721425) as i32).unwrap();
            let lon = (15.0 * (gmt + v)).clamp(-180.0, 180.0);
            let date = clamp_date(date + chrono::Duration::days(shift));
            (Site { lat: F(lat), lon: F(lon), elev: F(elev), gmt: F(gmt.clamp(-12.0, 12.0)) }, date)
        })
        .boxed()
}
