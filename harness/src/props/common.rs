//! Helpers shared by the prayer-time properties.

use chrono::NaiveDate;
use islamic_prayer_times::{prayer_times_dt, Prayer};

use crate::gen::{secs, ParamSpec, Site, Times, WeatherSpec, PRAYERS};

pub fn compute(site: &Site, spec: &ParamSpec, date: NaiveDate, weather: Option<WeatherSpec>) -> Times {
    let params = spec.build();
    prayer_times_dt(&params, site.location(), date, weather.map(|w| w.build()))
}

pub fn compute_p(site: &Site, params: &islamic_prayer_times::Params, date: NaiveDate, weather: Option<WeatherSpec>) -> Times {
    prayer_times_dt(params, site.location(), date, weather.map(|w| w.build()))
}

/// seconds after midnight of an entry, None if Invalid/missing
pub fn t(times: &Times, p: Prayer) -> Option<i64> {
    match times.get(&p) {
        Some(Ok(pt)) => Some(secs(pt.time)),
        _ => None,
    }
}
pub fn flagged(times: &Times, p: Prayer) -> Option<bool> {
    match times.get(&p) {
        Some(Ok(pt)) => Some(pt.extreme),
        _ => None,
    }
}
pub fn has_all_keys(times: &Times) -> bool {
    times.len() == 7 && PRAYERS.iter().all(|p| times.contains_key(p))
}
pub fn hms(s: i64) -> String {
    let s = s.rem_euclid(86400);
    format!("{:02}:{:02}:{:02}", s / 3600, (s / 60) % 60, s % 60)
}
