//! C04 Asr follows the shadow-length rule of the selected school.

use chrono::NaiveDate;
use islamic_prayer_times::Prayer;
use proptest::prelude::*;
use serde::{Deserialize, Serialize};
use serde_json::json;

use super::common::*;
use crate::engine::{Failure, Prop, Stats, Tier, F};
use crate::gen::{self, circ_diff, fwd, ParamSpec, Site};
use crate::oracle::ephem;

pub struct C04;

#[derive(Clone, Debug, Hash, PartialEq, Eq, Serialize, Deserialize)]
pub struct Case {
    pub site: Site,
    pub method: u8,
    pub date: NaiveDate,
}

const TOL: f64 = 0.03;

impl Prop for C04 {
    type Case = Case;
    fn id(&self) -> &'static str {
        "C04"
    }
    fn cases(&self, tier: Tier) -> u64 {
        tier.pick(1_000_000, 24_000_000)
    }
    fn strategy(&self, _tier: Tier) -> BoxedStrategy<Case> {
        // extra mass where the Sun passes (near) the zenith: lat = declination(date) + u, constructed from the oracle
        (gen::date(), 0u8..9)
            .prop_flat_map(|(date, method)| {
                let d = ephem::dec0(date, 0.0);
                let lat = prop_oneof![
                    5 => gen::latitude(60.0),
                    2 => (-0.2..=0.2f64).prop_map(move |u| (d + u).clamp(-60.0, 60.0)),
                    1 => (-3.0..=3.0f64).prop_map(move |u| (d + u).clamp(-60.0, 60.0)),
                    1 => (-1.0..=1.0f64).prop_map(move |u| (-d + u).clamp(-60.0, 60.0)),
                ]
                .boxed();
                // the statement quantifies over all longitudes / GMT offsets: a fifth of the cases pair the longitude with
                // an offset up to 12 h away (solar noon anywhere on the clock, also at the civil-day seam)
                prop_oneof![4 => gen::site_lat(lat.clone(), 3.0), 1 => gen::site_lat(lat, 12.0)].prop_map(move |site| Case { site, method, date })
            })
            .boxed()
    }
    fn self_test(&self) -> Result<(), String> {
        ephem::self_test()
    }
    fn check(&self, c: &Case, st: &mut Stats) -> Result<(), Failure> {
        st.eval();
        let (lat, gmt) = (c.site.lat.0, c.site.gmt.0);
        let d0 = ephem::dec0(c.date, gmt);
        let mut asr = [None, None];
        let mut last_times = None;
        for (i, school) in [1u8, 2u8].iter().enumerate() {
            let mut spec = ParamSpec::plain(c.method);
            spec.school = Some(*school);
            prime(&c.site, &spec, c.date, None, prime_selector(&c.site, c.date) + i as u64);
            let times = compute(&c.site, &spec, c.date, None);
            let Some(dh) = t(&times, Prayer::Dhuhr) else {
                return Err(Failure::new("dhuhr-invalid", "Dhuhr reported", gen::fmt_times(&times)));
            };
            let k = *school as f64;
            if let Some(ta) = t(&times, Prayer::Asr) {
                let want = ephem::asr_alt(k, lat, d0);
                let h_deg = circ_diff(ta, dh) as f64 / 240.0;
                let alt = ephem::alt_from(lat, d0, h_deg);
                let r = (alt - want).abs();
                st.max("abs_altitude_residual_deg", r);
                if !(r <= TOL) {
                    return Err(Failure::new(
                        format!("asr-altitude:k={}", school),
                        format!("altitude arccot({} + tan|lat-dec|) = {:.4} deg within {} (dec {:.4})", k, want, TOL, d0),
                        format!("Asr {} is {} s after Dhuhr {} -> altitude {:.4}", hms(ta), circ_diff(ta, dh), hms(dh), alt),
                    ));
                }
                let a = fwd(ta, dh);
                if !(a > 0 && a < 43200) {
                    return Err(Failure::new("asr-not-after-dhuhr", "Dhuhr < Asr (within 12 h)", format!("Asr {} Dhuhr {}", hms(ta), hms(dh))));
                }
                if let Some(tm) = t(&times, Prayer::Maghrib) {
                    let am = fwd(tm, dh);
                    if !(a < am) {
                        return Err(Failure::new(
                            format!("asr-not-before-maghrib:k={}", school),
                            "Asr strictly before Maghrib (as offsets after Dhuhr)",
                            format!("Asr {} Maghrib {} Dhuhr {}", hms(ta), hms(tm), hms(dh)),
                        ));
                    }
                }
                asr[i] = Some(a);
            } else {
                st.class("asr_does_not_exist");
            }
            if flagged(&times, Prayer::Asr) == Some(true) {
                return Err(Failure::new("flagged-without-policy", "unflagged Asr", "flagged"));
            }
            last_times = Some(times);
        }
        if let (Some(s), Some(h)) = (asr[0], asr[1]) {
            if !(h > s) {
                return Err(Failure::new(
                    "hanafi-not-later",
                    "Hanafi Asr strictly later than Shafi Asr",
                    format!("Shafi +{} s, Hanafi +{} s after Dhuhr", s, h),
                ));
            }
            st.nontrivial(c);
            st.max("min_hanafi_minus_shafi_s_negated", -((h - s) as f64));
        }
        if (lat - d0).abs() < 0.25 {
            st.class("zenith_passage_within_0.25deg");
        }
        if (lat >= 0.0 && d0 > lat) || (lat < 0.0 && d0 < lat) {
            st.class("sun_on_polar_side_of_observer_at_noon");
        }
        if lat < 0.0 {
            st.class("southern_hemisphere");
        }
        if st.want_sample() {
            st.sample(json!({"case": c, "result_hanafi": last_times.map(|t| gen::fmt_times(&t)), "asr_after_dhuhr_s": [asr[0], asr[1]]}));
        }
        Ok(())
    }
    fn rule(&self) -> String {
        "generated (date mixture, site |lat|<=60 with extra mass at lat = oracle declination of the date +-0.2/+-3 deg (zenith passage, constructed), GMT within 3 h, method); each case is evaluated under both schools. One case in 5 pairs the longitude with a GMT offset up to 12 h away; every evaluation is preceded by a priming call with a sibling input. Non-trivial = Asr exists under both schools (altitude, order and Hanafi>Shafi all checked); distinct by hash of the case".into()
    }
    fn assumptions(&self) -> Vec<String> {
        vec!["date's declination = oracle declination at local 0h; hour angle from reported Dhuhr, truncated seconds".into()]
    }
    fn tolerances(&self) -> serde_json::Value {
        json!({"abs_altitude_residual_deg": TOL})
    }
}
