//! bytes -> structured cases for the libFuzzer targets (total: every byte string decodes to a valid
//! case of the same domain the proptest generators cover; exhausted input yields zeros).

use arbitrary::Unstructured;

use crate::engine::F;
use crate::gen::{self, ParamSpec, Site, WeatherSpec};
use crate::props::{c07, c08, c10, c18};

fn frac(u: &mut Unstructured) -> f64 {
    let x: u32 = u.arbitrary().unwrap_or(0);
    x as f64 / u32::MAX as f64
}
fn range(u: &mut Unstructured, lo: f64, hi: f64) -> f64 {
    lo + (hi - lo) * frac(u)
}
fn pick<T: Copy>(u: &mut Unstructured, items: &[T]) -> T {
    let i: u8 = u.arbitrary().unwrap_or(0);
    items[i as usize % items.len()]
}
fn byte(u: &mut Unstructured) -> u8 {
    u.arbitrary().unwrap_or(0)
}

pub fn c07_case(data: &[u8]) -> c07::Case {
    let mut u = Unstructured::new(data);
    let lat = match byte(&mut u) % 8 {
        0 => pick(&mut u, &[90.0, -90.0, 66.56, -66.56, 0.0]),
        1 | 2 => {
            let l = range(&mut u, 45.0, 90.0);
            if byte(&mut u) & 1 == 0 {
                l
            } else {
                -l
            }
        }
        3 => (66.56 + range(&mut u, -1.5, 1.5)) * if byte(&mut u) & 1 == 0 { 1.0 } else { -1.0 },
        _ => range(&mut u, -90.0, 90.0),
    };
    let lon = match byte(&mut u) % 6 {
        0 => pick(&mut u, &[180.0, -180.0, 0.0]),
        _ => range(&mut u, -180.0, 180.0),
    };
    let elev = match byte(&mut u) % 4 {
        0 => 0.0,
        1 => pick(&mut u, &[-420.0, 8848.0]),
        _ => range(&mut u, -420.0, 8848.0),
    };
    let gmt = match byte(&mut u) % 3 {
        0 => (byte(&mut u) % 25) as f64 - 12.0,
        1 => pick(&mut u, &[12.0, -12.0, 5.5, 5.75, -3.5]),
        _ => range(&mut u, -12.0, 12.0),
    };
    let opt = |u: &mut Unstructured, lo: f64, hi: f64| -> Option<F> {
        match byte(u) % 5 {
            0 | 1 => None,
            2 => Some(F(0.0)),
            3 => Some(F(hi)),
            _ => Some(F(range(u, lo, hi))),
        }
    };
    let method = byte(&mut u) % 9;
    let fajr_angle = opt(&mut u, 0.0, 25.0);
    let isha_angle = opt(&mut u, 0.0, 25.0);
    let imsaak_angle = opt(&mut u, 0.0, 25.0);
    let fajr_interval = opt(&mut u, 0.0, 180.0);
    let isha_interval = opt(&mut u, 0.0, 180.0);
    let imsaak_interval = opt(&mut u, 0.0, 180.0);
    let minutes = if byte(&mut u) % 3 == 0 {
        None
    } else {
        let mut m = [F(0.0); 7];
        for x in m.iter_mut() {
            *x = F(match byte(&mut u) % 4 {
                0 => 0.0,
                1 => pick(&mut u, &[1500.0, -1500.0, 1440.0, -1440.0, 1.0, -1.0]),
                2 => ((byte(&mut u) as i32 * 12) - 1500) as f64,
                _ => range(&mut u, -1500.0, 1500.0),
            });
        }
        Some(m)
    };
    let rounding = byte(&mut u) % 4;
    let school = match byte(&mut u) % 3 {
        0 => None,
        1 => Some(1),
        _ => Some(2),
    };
    // the two nearest-good-day policies cost up to 60 ms per call at high latitude (much more under ASan): they get 1/16 of
    // the byte range instead of 2/15
    let pb = byte(&mut u);
    let policy = if pb % 16 == 15 { 5 + (pb / 16) % 2 } else { [0u8, 1, 2, 3, 4, 7, 8, 9, 10, 11, 12, 13, 14][(pb % 16) as usize % 13] };
    let policy_lat = match byte(&mut u) % 5 {
        0 => pick(&mut u, &[90.0, -90.0, 0.0, 66.56, -66.56, 48.5]),
        _ => range(&mut u, -90.0, 90.0),
    };
    let weather = match byte(&mut u) % 4 {
        0 => None,
        1 => Some(WeatherSpec { pressure: F(pick(&mut u, &[100.0, 1050.0])), temperature: F(pick(&mut u, &[-90.0, 57.0])) }),
        _ => Some(WeatherSpec { pressure: F(range(&mut u, 100.0, 1050.0)), temperature: F(range(&mut u, -90.0, 57.0)) }),
    };
    let di: u32 = u.arbitrary().unwrap_or(0);
    let date = gen::date_from_index((di as i64) % gen::n_dates());
    c07::Case {
        site: Site { lat: F(lat), lon: F(lon), elev: F(elev), gmt: F(gmt) },
        spec: ParamSpec {
            method,
            fajr_angle,
            isha_angle,
            imsaak_angle,
            fajr_interval,
            isha_interval,
            imsaak_interval,
            minutes,
            rounding,
            school,
            policy,
            policy_lat: F(policy_lat),
        },
        weather,
        date,
        boundary_probe: None,
    }
}

/// first byte: type (0..6) and route (number / text / json / composite); rest: the raw text or the 8 bytes of an f64
pub fn c18_case(data: &[u8]) -> c18::Case {
    let b0 = data.first().copied().unwrap_or(0);
    let ty = b0 % 6;
    let route = (b0 / 6) % 6;
    let rest = if data.is_empty() { &data[..] } else { &data[1..] };
    let text = String::from_utf8_lossy(rest).to_string();
    let input = match route {
        0 => {
            let mut b = [0u8; 8];
            for (i, x) in rest.iter().take(8).enumerate() {
                b[i] = *x;
            }
            c18::Input::Number { bits: u64::from_le_bytes(b) }
        }
        1 => c18::Input::Text(text),
        2 => c18::Input::Json(text),
        r => c18::Input::Composite { kind: r - 3, field: text },
    };
    c18::Case { ty, input }
}

/// Ingredients shared by the policy targets: a site with |lat| <= `max_lat` (atoms on the polar circle, the bound and the
/// classic substitute latitude; a band on the polar-night/polar-day edge), GMT within 2 h of the meridian, a named
/// method, a policy with its substitute latitude, optional intervals where the policy consumes them, rounding, date.
fn policy_parts(data: &[u8], max_lat: f64, max_plat: f64) -> (Site, ParamSpec, chrono::NaiveDate) {
    let mut u = Unstructured::new(data);
    let sgn = |u: &mut Unstructured| if byte(u) & 1 == 0 { 1.0 } else { -1.0 };
    let lat = match byte(&mut u) % 8 {
        0 => pick(&mut u, &[max_lat, -max_lat, 66.56, -66.56, 60.0, -60.0, 48.5, 0.0]).clamp(-max_lat, max_lat),
        1 | 2 => range(&mut u, 45.0, max_lat) * sgn(&mut u),
        3 => range(&mut u, 66.4, 69.6).min(max_lat) * sgn(&mut u),
        4 => range(&mut u, 58.0, 62.0).min(max_lat) * sgn(&mut u),
        _ => range(&mut u, -max_lat, max_lat),
    };
    let lon = match byte(&mut u) % 6 {
        0 => pick(&mut u, &[180.0, -180.0, 0.0]),
        _ => range(&mut u, -180.0, 180.0),
    };
    let gmt = (lon / 15.0 + range(&mut u, -2.0, 2.0)).clamp(-12.0, 12.0);
    let elev = if byte(&mut u) % 3 == 0 { range(&mut u, -420.0, 8848.0) } else { 0.0 };
    let mut method = 1 + byte(&mut u) % 8;
    // the nearest-good-day policies are costly at high latitude: 1/16 of the byte range
    let pb = byte(&mut u);
    let policy = if pb % 16 == 15 { 5 + (pb / 16) % 2 } else { [1u8, 2, 3, 4, 7, 8, 9, 10, 11, 12, 13, 14][(pb % 16) as usize % 12] };
    if gen::policy_consumes_intervals(policy) && method >= 7 {
        method = gen::ANGLE_METHODS[(method as usize + policy as usize) % 6];
    }
    let mut spec = ParamSpec::plain(method);
    spec.policy = policy;
    spec.policy_lat = F(match byte(&mut u) % 5 {
        0 => pick(&mut u, &[max_plat, -max_plat, 0.0, 48.5, -48.5, 60.0]).clamp(-max_plat, max_plat),
        1 => (lat + range(&mut u, -0.001, 0.001)).clamp(-max_plat, max_plat),
        _ => range(&mut u, -max_plat, max_plat),
    });
    spec.rounding = byte(&mut u) % 4;
    let iv = |u: &mut Unstructured| -> Option<F> {
        match byte(u) % 4 {
            0 | 1 => None,
            2 => Some(F(pick(u, &[1.0, 90.0, 120.0]))),
            _ => Some(F(range(u, 1.0, 120.0))),
        }
    };
    let (fi, ii) = (iv(&mut u), iv(&mut u));
    if gen::policy_consumes_intervals(policy) || policy == gen::P_MIN_ALWAYS {
        spec.fajr_interval = fi;
        if spec.intervals().1 == 0.0 {
            spec.isha_interval = ii;
        }
    }
    let di: u32 = u.arbitrary().unwrap_or(0);
    let mut date = gen::date_from_index((di as i64) % gen::n_dates());
    // a third of the inputs sit within 40 days of a solstice (where times go missing)
    let sb = byte(&mut u);
    if sb % 3 == 0 {
        use chrono::Datelike;
        let off = (sb / 3) as i64 - 40;
        let base = chrono::NaiveDate::from_ymd_opt(date.year().clamp(1601, 2398), if sb & 64 == 0 { 6 } else { 12 }, 21).unwrap();
        date = base + chrono::Duration::days(off.clamp(-40, 40));
    }
    (Site { lat: F(lat), lon: F(lon), elev: F(elev), gmt: F(gmt) }, spec, date)
}

pub fn c08_case(data: &[u8]) -> c08::Case {
    let (site, spec, date) = policy_parts(data, 70.0, 66.0);
    c08::Case { site, spec, date, polar_day_edge: None }
}

pub fn c10_case(data: &[u8]) -> c10::Case {
    let (site, mut spec, date) = policy_parts(data, 60.0, 60.0);
    // the ten policies of the statement
    const P: [u8; 10] = [2, 3, 4, 7, 8, 9, 10, 1, 13, 14];
    if !P.contains(&spec.policy) {
        spec.policy = P[spec.policy as usize % 10];
    }
    if gen::policy_consumes_intervals(spec.policy) && spec.method >= 7 {
        spec.method = gen::ANGLE_METHODS[spec.method as usize % 6];
    }
    // custom intervals only where the generator has them (the minutes-from-maghrib policies): the quantifier is over the
    // 8 named methods
    if spec.policy != gen::P_MIN_ALWAYS && spec.policy != gen::P_MIN_INV {
        spec.fajr_interval = None;
        spec.isha_interval = None;
    }
    // as in the proptest generator: unrounded seconds (3 s agreement is meaningless under minute rounding), and the
    // minutes-from-maghrib 'invalid' policy always has a Fajr amount
    spec.rounding = 0;
    if spec.policy == gen::P_MIN_INV && spec.fajr_interval.is_none() {
        spec.fajr_interval = Some(F(45.0));
    }
    c10::Case { site, spec, date }
}
