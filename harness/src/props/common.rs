//! Helpers shared by the prayer-time properties.

use chrono::NaiveDate;
use islamic_prayer_times::{prayer_times_dt, Prayer};

use crate::gen::{secs, ParamSpec, Site, Times, WeatherSpec, PRAYERS};

/// One library call for a prayer-time property. Most calls go straight to `prayer_times_dt`; a fixed share (chosen by a
/// hash of the arguments, so the same arguments always take the same route) reaches the same computation another way,
/// because every one of these routes is documented to give the same answer and a user may take any of them:
///   * the parameters / the location pass through the library's own JSON form first (what the CLI's `-p`/`-i` files do),
///   * the result passes through its JSON form and back (what the CLI's `-o` file does),
///   * the date is asked for through the range API - as the middle day of a three-day range, or as the last day of a
///     range that starts up to 7 days earlier (only without explicit weather: the range API takes none).
/// The caller's oracle then judges whatever came back. On a tree where the routes agree this changes nothing.
pub fn compute(site: &Site, spec: &ParamSpec, date: NaiveDate, weather: Option<WeatherSpec>) -> Times {
    let r = routed(site, spec, date, weather);
    revisit(site, spec, date, weather, &r);
    r
}

fn routed(site: &Site, spec: &ParamSpec, date: NaiveDate, weather: Option<WeatherSpec>) -> Times {
    use islamic_prayer_times::{prayer_times_dt_rng, DateRange, Location, Params};
    let mut params = spec.build();
    let mut loc = site.location();
    let h = route_hash(site, spec, date);
    let route = if std::env::var_os("VERIF_NO_ROUTES").is_some() { 15 } else { h % 16 };
    let mut r: Option<Times> = None;
    match route {
        0 => {
            ROUTES.with(|c| c.borrow_mut()[0] += 1);
            let j = serde_json::to_string(&params).expect("Params serialises");
            params = serde_json::from_str::<Params>(&j).expect("the library's own Params JSON parses back");
        }
        1 => {
            ROUTES.with(|c| c.borrow_mut()[1] += 1);
            let j = serde_json::to_string(&loc).expect("Location serialises");
            loc = serde_json::from_str::<Location>(&j).expect("the library's own Location JSON parses back");
        }
        3 | 4 if weather.is_none() => {
            let back = if route == 3 { 1 } else { 2 + ((h >> 8) % 6) as i64 };
            let fwd = if route == 3 { 1 } else { 0 };
            if let (Some(a), Some(b)) = (date.checked_sub_signed(chrono::Duration::days(back)), date.checked_add_signed(chrono::Duration::days(fwd))) {
                ROUTES.with(|c| c.borrow_mut()[route as usize] += 1);
                let mut m = prayer_times_dt_rng(&params, loc, &DateRange::from(a..=b));
                r = Some(m.remove(&date).expect("the range API returns an entry for every date of the range"));
            }
        }
        _ => {}
    }
    let mut r = match r {
        Some(x) => x,
        None => prayer_times_dt(&params, loc, date, weather.map(|w| w.build())),
    };
    if route == 2 {
        ROUTES.with(|c| c.borrow_mut()[2] += 1);
        let j = serde_json::to_string(&r).expect("a result serialises");
        r = serde_json::from_str::<Times>(&j).expect("the library's own result JSON parses back");
    }
    r
}

thread_local! {
    static ROUTES: std::cell::RefCell<[u64; 5]> = const { std::cell::RefCell::new([0; 5]) };
}

fn route_hash(site: &Site, spec: &ParamSpec, date: NaiveDate) -> u64 {
    use chrono::Datelike;
    crate::engine::mix(&[
        site.lat.0.to_bits(),
        site.lon.0.to_bits(),
        site.gmt.0.to_bits(),
        date.num_days_from_ce() as u64,
        spec.method as u64 * 64 + spec.policy as u64 * 4 + spec.rounding as u64,
        0x52_4f_55_54,
    ])
}

/// Moves this thread's route counters into the statistics of its shard (classes `route_*`).
pub fn drain_route_counts(st: &mut crate::engine::Stats) {
    const NAMES: [&str; 5] = [
        "route_params_through_json",
        "route_location_through_json",
        "route_result_through_json",
        "route_range_api_middle_day",
        "route_range_api_last_day_of_longer_range",
    ];
    ROUTES.with(|c| {
        let mut c = c.borrow_mut();
        for (i, n) in c.iter_mut().enumerate() {
            if *n > 0 {
                st.class_n(NAMES[i], *n);
                *n = 0;
            }
        }
    });
}

type Remembered = (Site, ParamSpec, NaiveDate, Option<WeatherSpec>, Times);
thread_local! {
    static CALLS: std::cell::Cell<u64> = const { std::cell::Cell::new(0) };
    static MEMORY: std::cell::RefCell<Vec<Remembered>> = const { std::cell::RefCell::new(Vec::new()) };
}

/// "Same arguments, same result", however many other calls lie in between: every 211th call of a thread is remembered
/// (64 entries, overwritten round-robin), and every 97th call one remembered call - on average ~7,000 calls old, the
/// oldest ~13,000 - is repeated and compared with what it returned then. A difference means the library's result depends
/// on its call history (a cache that goes wrong when full, an evicted key that still hits, a counter); it is reported as
/// a failure of the case being evaluated, with both results in the message. Such a failure is reproduced by re-running
/// the check with the same seed, not by replaying the single case.
fn revisit(site: &Site, spec: &ParamSpec, date: NaiveDate, weather: Option<WeatherSpec>, result: &Times) {
    let n = CALLS.with(|c| {
        let n = c.get() + 1;
        c.set(n);
        n
    });
    if n % 211 == 0 {
        MEMORY.with(|m| {
            let mut m = m.borrow_mut();
            let e = (*site, spec.clone(), date, weather, result.clone());
            if m.len() < 64 {
                m.push(e);
            } else {
                let i = ((n / 211) % 64) as usize;
                m[i] = e;
            }
        });
    }
    if n % 97 == 0 {
        let old: Option<Remembered> = MEMORY.with(|m| {
            let m = m.borrow();
            if m.is_empty() {
                None
            } else {
                Some(m[(crate::engine::mix(&[n]) % m.len() as u64) as usize].clone())
            }
        });
        if let Some((s, sp, d, w, then)) = old {
            // (the same arguments take the same route as the first time)
            let now = routed(&s, &sp, d, w);
            if now != then {
                panic!(
                    "history-dependence: the same arguments gave a different result after other calls on this thread: site {:?} date {} method {} policy {}: before [{}] now [{}]",
                    (s.lat.0, s.lon.0, s.elev.0, s.gmt.0),
                    d,
                    crate::gen::METHOD_NAMES[sp.method as usize],
                    crate::gen::POLICY_NAMES[sp.policy as usize],
                    crate::gen::fmt_times(&then),
                    crate::gen::fmt_times(&now)
                );
            }
        }
    }
}

pub fn compute_p(site: &Site, params: &islamic_prayer_times::Params, date: NaiveDate, weather: Option<WeatherSpec>) -> Times {
    prayer_times_dt(params, site.location(), date, weather.map(|w| w.build()))
}

/// seconds after midnight of an entry, None if Invalid/missing
pub fn t(times: &Times, p: Prayer) -> Option<i64> {
    match times.get(&p) {
        Some(Ok(pt)) => Some(secs(pt.time)),
        _ => None,
    }
}
pub fn flagged(times: &Times, p: Prayer) -> Option<bool> {
    match times.get(&p) {
        Some(Ok(pt)) => Some(pt.extreme),
        _ => None,
    }
}
pub fn has_all_keys(times: &Times) -> bool {
    times.len() == 7 && PRAYERS.iter().all(|p| times.contains_key(p))
}
pub fn hms(s: i64) -> String {
    let s = s.rem_euclid(86400);
    format!("{:02}:{:02}:{:02}", s / 3600, (s / 60) % 60, s % 60)
}

/// History independence ("the library is a pure function of its arguments"): before a case is evaluated, the library
/// is called once, on the same thread, with a *sibling* input that differs from the case in exactly one argument
/// (chosen by `selector`: GMT offset / longitude / latitude / elevation each either far away or by a tiny amount,
/// date +40 d, date -1 d, method/school, substitute latitude/weather, or the neighbouring day combined with a changed offset/longitude). The sibling's result is discarded. Any state a change to the library keeps between
/// calls (a memo keyed on a subset of the inputs, a "last day" cache, a static) then shows up as a wrong value of the
/// case itself, which the property's independent oracle catches.
pub fn prime(site: &Site, spec: &ParamSpec, date: NaiveDate, weather: Option<WeatherSpec>, selector: u64) {
    use crate::engine::F;
    let mut s2 = *site;
    let mut sp2 = spec.clone();
    let mut d2 = date;
    let mut w2 = weather;
    match selector % 18 {
        // the same month and day in another century (a key that drops part of the year)
        16 | 17 => {
            use chrono::Datelike;
            let dy = if selector % 18 == 16 { 100 } else { 400 };
            let y = if date.year() + dy <= 2399 { date.year() + dy } else { date.year() - dy };
            d2 = NaiveDate::from_ymd_opt(y, date.month(), date.day().min(28)).map(crate::gen::clamp_date).unwrap_or(date);
        }
        // two arguments at once: the neighbouring day together with a tiny / large change of the offset or longitude
        12 => {
            d2 = crate::gen::clamp_date(date - chrono::Duration::days(1));
            s2.gmt = F(if site.gmt.0 <= 0.0 { site.gmt.0 + 0.004 } else { site.gmt.0 - 0.004 });
        }
        13 => {
            d2 = crate::gen::clamp_date(date + chrono::Duration::days(1));
            s2.gmt = F(if site.gmt.0 <= 0.0 { site.gmt.0 + 0.004 } else { site.gmt.0 - 0.004 });
        }
        14 => {
            d2 = crate::gen::clamp_date(date - chrono::Duration::days(1));
            s2.lon = F(if site.lon.0 <= 0.0 { site.lon.0 + 0.03 } else { site.lon.0 - 0.03 });
        }
        15 => {
            d2 = crate::gen::clamp_date(date - chrono::Duration::days(1));
            s2.gmt = F(if site.gmt.0 <= 0.0 { (site.gmt.0 + 9.0).min(12.0) } else { (site.gmt.0 - 9.0).max(-12.0) });
        }
        8 => {
            // a few seconds to a minute of clock offset: below/above the granularity a rounded cache key might have
            let d = [0.0006, 0.002, 0.004, 0.012][((selector / 18) % 4) as usize];
            s2.gmt = F(if site.gmt.0 <= 0.0 { site.gmt.0 + d } else { site.gmt.0 - d });
        }
        9 => s2.lon = F(if site.lon.0 <= 0.0 { site.lon.0 + 0.03 } else { site.lon.0 - 0.03 }),
        10 => s2.lat = F(if site.lat.0 <= 0.0 { site.lat.0 + 0.03 } else { site.lat.0 - 0.03 }),
        11 => s2.elev = F(if site.elev.0 <= 0.0 { site.elev.0 + 1.0 } else { site.elev.0 - 1.0 }),
        0 => s2.gmt = F(if site.gmt.0 <= 0.0 { (site.gmt.0 + 9.0).min(12.0) } else { (site.gmt.0 - 9.0).max(-12.0) }),
        1 => {
            let mut l = site.lon.0 + 97.0;
            if l > 180.0 {
                l -= 360.0;
            }
            s2.lon = F(l);
        }
        2 => s2.lat = F((-0.7 * site.lat.0 + 11.0).clamp(-90.0, 90.0)),
        3 => d2 = crate::gen::clamp_date(date + chrono::Duration::days(40)),
        4 => d2 = crate::gen::clamp_date(date - chrono::Duration::days(1)),
        5 => s2.elev = F(if site.elev.0 > 1500.0 { 0.0 } else { 3000.0 }),
        6 => {
            sp2.method = (spec.method + 3) % 9;
            sp2.school = Some(if spec.school_k() == 1.0 { 2 } else { 1 });
        }
        _ => {
            sp2.policy_lat = F(-spec.policy_lat.0);
            w2 = match weather {
                None => Some(WeatherSpec { pressure: F(600.0), temperature: F(-30.0) }),
                Some(_) => None,
            };
        }
    }
    let r = compute(&s2, &sp2, d2, w2);
    std::hint::black_box(&r);
}

/// selector for `prime` derived from the case itself (so that the run stays a pure function of the generated case)
pub fn prime_selector(site: &Site, date: NaiveDate) -> u64 {
    use chrono::Datelike;
    crate::engine::mix(&[site.lat.0.to_bits(), site.lon.0.to_bits(), date.num_days_from_ce() as u64])
}
