//! libFuzzer target for C07: bytes -> (site, params, weather, date) over the same domain as the
//! proptest generator -> prayer_times_dt; the oracle (7 entries, no panic) is inside the target.
//! A library panic aborts through libfuzzer-sys' panic hook, i.e. it is a crash artifact.
#![no_main]
use libfuzzer_sys::fuzz_target;

fuzz_target!(|data: &[u8]| {
    let case = ipt_verif::decode::c07_case(data);
    let mut st = ipt_verif::engine::Stats::new(0);
    if let Err(f) = ipt_verif::props::c07::check_case(&case, &mut st) {
        panic!("C07 violation candidate: {} | {:?}", f.signature, case);
    }
});
