//! C20 Clock times are consistent across time zones and meridians.

use chrono::NaiveDate;
use proptest::prelude::*;
use serde::{Deserialize, Serialize};
use serde_json::json;

use super::common::*;
use crate::engine::{Failure, Prop, Stats, Tier, F};
use crate::gen::{self, circ_diff, ParamSpec, Site};

pub struct C20;

#[derive(Clone, Debug, Hash, PartialEq, Eq, Serialize, Deserialize)]
pub struct Case {
    pub site: Site,
    pub method: u8,
    pub date: NaiveDate,
    /// true: move the site 15*d deg east and add d h; false: change only the GMT offset by d h
    pub meridian: bool,
    /// requested step in hours (sign may be flipped / magnitude reduced to stay in range, see `effective_step`)
    pub d: i32,
}

/// The step actually applied: keeps gmt+d in [-12,12] and lon+15d in [-180,180].
fn effective_step(c: &Case) -> i32 {
    let ok = |d: i32| -> bool {
        let g = c.site.gmt.0 + d as f64;
        let l = c.site.lon.0 + 15.0 * d as f64;
        (-12.0..=12.0).contains(&g) && (!c.meridian || (-180.0..=180.0).contains(&l))
    };
    let mut d = c.d;
    if d == 0 {
        d = 1;
    }
    loop {
        if ok(d) {
            return d;
        }
        if ok(-d) {
            return -d;
        }
        if d.abs() == 1 {
            return 0;
        }
        d -= d.signum();
    }
}

impl Prop for C20 {
    type Case = Case;
    fn id(&self) -> &'static str {
        "C20"
    }
    fn cases(&self, tier: Tier) -> u64 {
        tier.pick(1_000_000, 30_000_000)
    }
    fn strategy(&self, _tier: Tier) -> BoxedStrategy<Case> {
        let d = prop_oneof![4 => Just(1), 4 => Just(-1), 1 => 2..=6i32, 1 => -6..=-2i32];
        let site_date = prop_oneof![
            8 => (gen::site(45.0, 2.0), gen::date()),
            1 => gen::ra_wrap_site_date(45.0, 2.0, 12.0).prop_map(|(mut s, d)| {
                // keep room for the step: offsets within [-11, 11]
                s.gmt = crate::engine::F(s.gmt.0.clamp(-11.0, 11.0));
                (s, d)
            }),
        ];
        (site_date, 0u8..9, any::<bool>(), d).prop_map(|((site, date), method, meridian, d)| Case { site, method, date, meridian, d }).boxed()
    }
    fn check(&self, c: &Case, st: &mut Stats) -> Result<(), Failure> {
        st.eval();
        let d = effective_step(c);
        if d == 0 {
            st.skip("no_step_keeps_values_in_range");
            return Ok(());
        }
        let spec = ParamSpec::plain(c.method);
        prime(&c.site, &spec, c.date, None, prime_selector(&c.site, c.date));
        let base = compute(&c.site, &spec, c.date, None);
        let mut s2 = c.site;
        s2.gmt = F(c.site.gmt.0 + d as f64);
        if c.meridian {
            s2.lon = F(c.site.lon.0 + 15.0 * d as f64);
        }
        let shifted = compute(&s2, &spec, c.date, None);
        // (VERIF_C20_DIAG_TOL is a diagnostic knob used only to locate the worst cases; never set by the registered commands)
        let unit_tol: i64 = std::env::var("VERIF_C20_DIAG_TOL").ok().and_then(|s| s.parse().ok()).unwrap_or(10);
        let tol = unit_tol * d.abs() as i64;
        let mut all_valid = true;
        let mut seam = false;
        for p in gen::PRAYERS {
            let (a, b) = (t(&base, p), t(&shifted, p));
            if a.is_some() != b.is_some() {
                return Err(Failure::new(
                    format!("validity-changed:{:?}", p),
                    "validity unchanged by the shift",
                    format!("base: {} | shifted (d={:+} h, meridian={}): {}", gen::fmt_times(&base), d, c.meridian, gen::fmt_times(&shifted)),
                ));
            }
            let (Some(a), Some(b)) = (a, b) else {
                all_valid = false;
                continue;
            };
            let expect_shift = if c.meridian { 0 } else { d as i64 * 3600 };
            // civil-day seam: the base or shifted instant falls on the other side of 00:00
            // (margin: an event within a minute per hour of step of 00:00 may legitimately land on either side)
            let m = 60 * d.abs() as i64;
            let x = a + expect_shift;
            let skip = x < m || x >= 86400 - m || b < m || b >= 86400 - m;
            if skip {
                st.skip("entry_crosses_civil_day_seam");
                seam = true;
                continue;
            }
            let dev = circ_diff(b, a + expect_shift).abs();
            if d.abs() == 1 {
                st.max(if c.meridian { "unit_meridian_step_deviation_s" } else { "unit_gmt_step_deviation_s" }, dev as f64);
            } else {
                st.max("multi_hour_step_deviation_per_hour_s", dev as f64 / d.abs() as f64);
            }
            if dev > tol {
                return Err(Failure::new(
                    format!("{}:{:?}", if c.meridian { "meridian-step" } else { "gmt-step" }, p),
                    format!("{:?} moves by {} s within {} s (step {:+} h)", p, expect_shift, tol, d),
                    format!("{:?} {} -> {} (deviation {} s)", p, hms(a), hms(b), dev),
                ));
            }
        }
        if all_valid && !seam {
            st.nontrivial(c);
        }
        st.class(match (c.meridian, d.abs() == 1) {
            (true, true) => "meridian_unit_step",
            (true, false) => "meridian_multi_hour_step",
            (false, true) => "gmt_unit_step",
            (false, false) => "gmt_multi_hour_step",
        });
        if gen::is_ra_wrap_window(c.date) {
            st.class("ra_wrap_window");
        }
        if st.want_sample() {
            st.sample(json!({"case": c, "effective_step_h": d, "base": gen::fmt_times(&base), "shifted": gen::fmt_times(&shifted)}));
        }
        Ok(())
    }
    fn rule(&self) -> String {
        "generated (site |lat|<=45, base GMT within 2 h of lon/15, 9 methods, date mixture, step kind GMT-only or meridian (15 deg + 1 h), step +-1 h (80 %) or 2..6 h); the step's sign/magnitude is adjusted by construction so shifted values stay in range. One case in 9 has its local midnight within 12 minutes of the RA wrap; every case is preceded by a priming call with a sibling input. Non-trivial = all 7 entries valid and none skipped at the civil-day seam; distinct by hash of the case".into()
    }
    fn assumptions(&self) -> Vec<String> {
        vec![
            "unit steps are held to the stated 10 s; a |d|-hour step is the composition of |d| unit steps and is held to 10*|d| s".into(),
            "an entry whose base or shifted clock time falls across 00:00 refers to a different solar day and is skipped (counted)".into(),
        ]
    }
    fn tolerances(&self) -> serde_json::Value {
        json!({"unit_step_deviation_s": 10, "multi_hour_step_deviation_per_hour_s": 10})
    }
}
