use crate::engine::{replay_prop, run_prop, RunOpts};

pub mod common;
pub mod c01;
pub mod c02;
pub mod c03;
pub mod c04;
pub mod c05;
pub mod c06;
pub mod c07;
pub mod c08;
pub mod c09;
pub mod c10;
pub mod c11;
pub mod c12;
pub mod c13;
pub mod c14;
pub mod c15;
pub mod c16;
pub mod c17;
pub mod c18;
pub mod c19;
pub mod c20;

macro_rules! dispatch {
    ($id:expr, $f:ident, $($arg:expr),*) => {
        match $id {
            "C01" => $f(c01::C01, $($arg),*),
            "C02" => $f(c02::C02, $($arg),*),
            "C03" => $f(c03::C03, $($arg),*),
            "C04" => $f(c04::C04, $($arg),*),
            "C05" => $f(c05::C05, $($arg),*),
            "C06" => $f(c06::C06, $($arg),*),
            "C07" => $f(c07::C07, $($arg),*),
            "C08" => $f(c08::C08, $($arg),*),
            "C09" => $f(c09::C09, $($arg),*),
            "C10" => $f(c10::C10, $($arg),*),
            "C11" => $f(c11::C11, $($arg),*),
            "C12" => $f(c12::C12, $($arg),*),
            "C13" => $f(c13::C13, $($arg),*),
            "C14" => $f(c14::C14, $($arg),*),
            "C15" => $f(c15::C15, $($arg),*),
            "C16" => $f(c16::C16, $($arg),*),
            "C17" => $f(c17::C17, $($arg),*),
            "C18" => $f(c18::C18, $($arg),*),
            "C19" => $f(c19::C19, $($arg),*),
            "C20" => $f(c20::C20, $($arg),*),
            other => {
                eprintln!("unknown property {}", other);
                2
            }
        }
    };
}

pub fn run(id: &str, opts: RunOpts) -> i32 {
    dispatch!(id, run_prop, opts)
}

pub fn replay(id: &str, path: &str) -> i32 {
    dispatch!(id, replay_prop, path)
}
