//! C12 Each parameter affects only the times it is documented to affect.

use chrono::NaiveDate;
use islamic_prayer_times::Prayer;
use proptest::prelude::*;
use serde::{Deserialize, Serialize};
use serde_json::json;

use super::common::*;
use crate::engine::{Failure, Prop, Stats, Tier, F};
use crate::gen::{self, fwd, ParamSpec, Site, Times, WeatherSpec, PRAYERS, PRAYER_NAMES};

pub struct C12;

#[derive(Clone, Debug, Hash, PartialEq, Eq, Serialize, Deserialize)]
pub enum Perturb {
    /// minute offset on PRAYERS[key]
    MinuteOffset { key: u8, minutes: F },
    /// minute offset on PRAYERS[key] constructed from the unperturbed time so that the shifted time lands `delta_s`
    /// seconds before (negative) or after (positive) midnight; used only when that offset is within [-90, 90] min
    MinuteOffsetToMidnight { key: u8, delta_s: F },
    FajrInterval(F),
    IshaInterval(F),
    ImsaakInterval(F),
    SchoolSwap,
    FajrAngle(i8),
    IshaAngle(i8),
    Weather(WeatherSpec),
    DefaultWeather,
}

#[derive(Clone, Debug, Hash, PartialEq, Eq, Serialize, Deserialize)]
pub struct Case {
    pub site: Site,
    pub method: u8,
    /// false: policy None, true: the library default (NearestGoodDayFajrIshaInvalid); angle perturbations always use None
    pub default_policy: bool,
    pub date: NaiveDate,
    pub perturb: Perturb,
    /// policy used for the angle perturbations (index into ANGLE_POLICIES); other kinds ignore it
    #[serde(default)]
    pub angle_policy: u8,
    /// Fajr / Isha intervals already present in the base parameters (so that perturbations are also made on top of
    /// interval-defined Fajr/Isha and intervals are combined, e.g. Fajr interval + Imsaak interval)
    #[serde(default)]
    pub base_fajr_interval: Option<F>,
    #[serde(default)]
    pub base_isha_interval: Option<F>,
    /// explicit weather used for the base and the perturbed run alike (not for the two weather kinds): the relations
    /// between derived times (Imsaak = Fajr - interval, Fajr = Shurooq - interval, ...) must hold under any weather
    #[serde(default)]
    pub base_weather: Option<WeatherSpec>,
    /// Imsaak interval already present in the base parameters (not under the Imsaak-interval perturbation, nor for the
    /// angle kinds), so that offsets and the other intervals are also varied on top of an interval-defined Imsaak
    #[serde(default)]
    pub base_imsaak_interval: Option<F>,
    /// minute offsets (each within +-30) already present on all seven keys of the base parameters; an offset
    /// perturbation is added on top of them
    #[serde(default)]
    pub base_offsets: Option<[F; 7]>,
}

/// Policies under which "the Fajr angle moves only Fajr and Imsaak, the Isha angle only Isha" can be stated
/// soundly: no policy, and the Fajr/Isha-only policies whose treatment of one of the two never depends on the
/// other (the nearest-good-day search legitimately couples them and is excluded; AngleBased replaces both as
/// soon as any time is missing, so it is used only when that trigger is the same in both runs).
const ANGLE_POLICIES: [u8; 8] = [
    gen::P_NONE,
    gen::P_NONE,
    gen::P_ANGLE,
    gen::P_7N_ALWAYS,
    gen::P_7N_INV,
    gen::P_7D_INV,
    gen::P_NL_FI_ALWAYS,
    gen::P_NL_FI_INV,
];

fn same(a: &Times, b: &Times, p: Prayer) -> bool {
    a.get(&p) == b.get(&p)
}

fn unchanged_except(base: &Times, other: &Times, allowed: &[Prayer], what: &str) -> Result<(), Failure> {
    for (i, p) in PRAYERS.iter().enumerate() {
        if allowed.contains(p) {
            continue;
        }
        if !same(base, other, *p) {
            return Err(Failure::new(
                format!("crosstalk:{}:{}", what, PRAYER_NAMES[i]),
                format!("{} unchanged by {}", PRAYER_NAMES[i], what),
                format!("before: {} | after: {}", gen::fmt_times(base), gen::fmt_times(other)),
            ));
        }
    }
    Ok(())
}

impl Prop for C12 {
    type Case = Case;
    fn id(&self) -> &'static str {
        "C12"
    }
    fn cases(&self, tier: Tier) -> u64 {
        tier.pick(300_000, 4_000_000)
    }
    fn max_shrink_iters(&self) -> u32 {
        1200
    }
    fn strategy(&self, _tier: Tier) -> BoxedStrategy<Case> {
        let minutes = prop_oneof![3 => -90.0..=90.0f64, 2 => (-90..=90i32).prop_map(|m| m as f64), 1 => prop_oneof![Just(90.0), Just(-90.0), Just(1.0), Just(-1.0), Just(0.5)]];
        let interval = || prop_oneof![3 => 1.0..=120.0f64, 2 => (1..=120i32).prop_map(|m| m as f64), 1 => prop_oneof![Just(1.0), Just(120.0), Just(90.0)]];
        let weather = (100.0..=1050.0f64, -90.0..=57.0f64).prop_map(|(p, t)| WeatherSpec { pressure: F(p), temperature: F(t) });
        let perturb = prop_oneof![
            7 => (0u8..7, minutes).prop_map(|(key, m)| Perturb::MinuteOffset { key, minutes: F(m) }),
            2 => (1u8..7, prop_oneof![Just(-0.4), Just(0.4), Just(-1.6), Just(1.6), -3.0..=3.0f64, -0.01..=0.01f64])
                .prop_map(|(key, d)| Perturb::MinuteOffsetToMidnight { key, delta_s: F(d) }),
            2 => interval().prop_map(|m| Perturb::FajrInterval(F(m))),
            2 => interval().prop_map(|m| Perturb::IshaInterval(F(m))),
            3 => interval().prop_map(|m| Perturb::ImsaakInterval(F(m))),
            2 => Just(Perturb::SchoolSwap),
            2 => prop_oneof![Just(1i8), Just(-1i8)].prop_map(Perturb::FajrAngle),
            2 => prop_oneof![Just(1i8), Just(-1i8)].prop_map(Perturb::IshaAngle),
            2 => weather.prop_map(Perturb::Weather),
            1 => Just(Perturb::DefaultWeather),
        ];
        let base_iv = || prop_oneof![6 => Just(None), 2 => (1.0..=120.0f64).prop_map(|x| Some(F(x))), 1 => prop_oneof![Just(Some(F(120.0))), Just(Some(F(1.0))), Just(Some(F(90.0)))]];
        let base_weather = prop_oneof![2 => Just(None), 1 => gen::weather_opt()];
        let base_offsets = prop_oneof![
            3 => Just(None),
            1 => proptest::array::uniform7(prop_oneof![1 => Just(0.0), 2 => -30.0..=30.0f64, 1 => (-30..=30i32).prop_map(|x| x as f64)]).prop_map(|a| Some(a.map(F))),
        ];
        let general = (gen::site(62.0, 2.0), 0u8..9, any::<bool>(), gen::date(), perturb, 0u8..8, base_iv(), base_iv(), base_weather, base_iv(), base_offsets)
            .prop_map(|(site, method, default_policy, date, perturb, angle_policy, base_fajr_interval, base_isha_interval, base_weather, base_imsaak_interval, base_offsets)| Case {
                site,
                method,
                default_policy,
                date,
                perturb,
                angle_policy,
                base_fajr_interval,
                base_isha_interval,
                base_weather,
                base_imsaak_interval,
                base_offsets,
            })
            .boxed();
        // short nights: |lat| 59.5-62 within two weeks of the local summer solstice, with Fajr, Isha and Imsaak intervals
        // that are all large (together they can exceed the night) - two parameters that are normally varied one at a time
        let short_night = (59.5..=62.0f64, any::<bool>(), 1600..=2399i32, -14i64..=14, gen::longitude(), 0u8..9, any::<bool>(), 80.0..=120.0f64, 80.0..=120.0f64, prop_oneof![1 => 80.0..=120.0f64, 1 => Just(120.0)])
            .prop_flat_map(|(lat, south, year, off, lon, method, default_policy, fi, ii, im)| {
                let lat = if south { -lat } else { lat };
                let centre = if south { gen::ymd(year, 12, 21) } else { gen::ymd(year, 6, 21) };
                let date = gen::clamp_date(centre + chrono::Duration::days(off));
                gen::gmt_for(lon, 2.0).prop_map(move |gmt| Case {
                    site: Site { lat: F(lat), lon: F(lon), elev: F(0.0), gmt: F(gmt) },
                    method,
                    default_policy,
                    date,
                    perturb: Perturb::ImsaakInterval(F(im)),
                    angle_policy: 0,
                    base_fajr_interval: Some(F(fi)),
                    base_isha_interval: Some(F(ii)),
                    base_weather: None,
                    base_imsaak_interval: None,
                    base_offsets: None,
                })
            })
            .boxed();
        prop_oneof![40 => general, 1 => short_night].boxed()
    }
    fn check(&self, c: &Case, st: &mut Stats) -> Result<(), Failure> {
        st.eval();
        let mut spec = ParamSpec::plain(c.method);
        let angle_kind = matches!(c.perturb, Perturb::FajrAngle(_) | Perturb::IshaAngle(_));
        let _ = &c.perturb;
        spec.policy = if angle_kind {
            ANGLE_POLICIES[c.angle_policy as usize % ANGLE_POLICIES.len()]
        } else if c.default_policy {
            gen::P_NGD_FI_INV
        } else {
            gen::P_NONE
        };
        // base intervals: not under the interval perturbations that set the same key, nor for the angle kinds (an
        // interval-defined time does not move with its angle)
        if !angle_kind {
            if !matches!(c.perturb, Perturb::FajrInterval(_)) {
                if let Some(v) = c.base_fajr_interval {
                    spec.fajr_interval = Some(v);
                }
            }
            if !matches!(c.perturb, Perturb::IshaInterval(_)) {
                if let Some(v) = c.base_isha_interval {
                    if spec.intervals().1 == 0.0 {
                        spec.isha_interval = Some(v);
                    }
                }
            }
            if !matches!(c.perturb, Perturb::ImsaakInterval(_)) {
                if let Some(v) = c.base_imsaak_interval {
                    spec.imsaak_interval = Some(v);
                    st.class("base_with_imsaak_interval");
                }
            }
            if spec.fajr_interval.is_some() || spec.isha_interval.is_some() {
                st.class("base_with_user_intervals");
            }
            // (not under the Fajr/Isha interval perturbations: their clause relates two reported times that would carry
            // different offsets)
            if let (Some(o), false) = (c.base_offsets, matches!(c.perturb, Perturb::FajrInterval(_) | Perturb::IshaInterval(_))) {
                spec.minutes = Some(o);
                st.class("base_with_minute_offsets");
            }
        }
        let bw: Option<WeatherSpec> = if matches!(c.perturb, Perturb::Weather(_) | Perturb::DefaultWeather) { None } else { c.base_weather };
        if bw.is_some() {
            st.class("base_with_explicit_weather");
        }
        prime(&c.site, &spec, c.date, bw, prime_selector(&c.site, c.date));
        let base = compute(&c.site, &spec, c.date, bw);
        let mut nontrivial = false;
        // resolve the constructed offset into an ordinary one
        let resolved;
        let perturb: &Perturb = match &c.perturb {
            Perturb::MinuteOffsetToMidnight { key, delta_s } => {
                // the generated key, or - if that prayer is more than 90 minutes from midnight - the prayer nearest to midnight
                let mut best: Option<(u8, i64)> = t(&base, PRAYERS[*key as usize]).map(|x| (*key, x));
                if best.map_or(true, |(_, x)| gen::circ_diff(x, 0).abs() > 5300) {
                    for k in 1u8..7 {
                        if let Some(x) = t(&base, PRAYERS[k as usize]) {
                            if best.map_or(true, |(_, b)| gen::circ_diff(x, 0).abs() < gen::circ_diff(b, 0).abs()) {
                                best = Some((k, x));
                            }
                        }
                    }
                }
                let Some((key, t0)) = best else {
                    st.skip("offset_to_midnight_prayer_invalid");
                    return Ok(());
                };
                // target clock time: delta_s relative to midnight, whichever midnight is nearer
                let m = if t0 <= 43200 { (-(t0 as f64) + delta_s.0) / 60.0 } else { ((86400 - t0) as f64 + delta_s.0) / 60.0 };
                if m.abs() > 90.0 {
                    st.skip("offset_to_midnight_would_exceed_90_minutes");
                    return Ok(());
                }
                st.class("kind_minute_offset_landing_next_to_midnight");
                resolved = Perturb::MinuteOffset { key, minutes: F(m) };
                &resolved
            }
            other => other,
        };
        match perturb {
            Perturb::MinuteOffset { key, minutes } => {
                let mut s2 = spec.clone();
                // on top of the base offsets, unless the sum would leave the quantified [-90, 90]
                let mut m = spec.minutes.unwrap_or([F(0.0); 7]);
                let sum = m[*key as usize].0 + minutes.0;
                m[*key as usize] = if sum.abs() <= 90.0 { F(sum) } else { *minutes };
                let want_shift = m[*key as usize].0 - spec.minutes.map_or(0.0, |b| b[*key as usize].0);
                s2.minutes = Some(m);
                let o = compute(&c.site, &s2, c.date, bw);
                let pr = PRAYERS[*key as usize];
                let want = want_shift * 60.0;
                let moved_ok = |p: Prayer| -> Result<bool, Failure> {
                    match (base[&p], o[&p]) {
                        (Ok(a), Ok(b)) => {
                            if a.extreme != b.extreme {
                                return Err(Failure::new("offset:flag-changed", "flag unchanged by a minute offset", format!("{:?}", p)));
                            }
                            // moved by exactly minutes*60 s, +-1 s of truncation, on the 24 h circle
                            let got = (gen::secs(b.time) - gen::secs(a.time)) as f64;
                            let dev = (got - want).rem_euclid(86400.0);
                            let dev = dev.min(86400.0 - dev);
                            if dev > 1.0 + 1e-6 {
                                return Err(Failure::new(
                                    format!("offset:wrong-shift:{:?}", p),
                                    format!("{:?} moves by {} s (+-1 s truncation) for a {} min offset on the {} key", p, want, minutes.0, PRAYER_NAMES[*key as usize]),
                                    format!("{} -> {}", a.time, b.time),
                                ));
                            }
                            Ok(true)
                        }
                        (Err(()), Err(())) => Ok(false),
                        _ => Err(Failure::new(
                            "offset:validity-changed",
                            "validity unchanged by a minute offset",
                            format!("before: {} | after: {}", gen::fmt_times(&base), gen::fmt_times(&o)),
                        )),
                    }
                };
                match pr {
                    Prayer::Imsaak => {
                        // the statement only says Imsaak follows Fajr's offset: nothing else may move; no claim on Imsaak itself
                        unchanged_except(&base, &o, &[Prayer::Imsaak], "offset-on-imsaak-key")?;
                        nontrivial = true;
                    }
                    Prayer::Fajr => {
                        unchanged_except(&base, &o, &[Prayer::Fajr, Prayer::Imsaak], "offset-on-fajr-key")?;
                        nontrivial |= moved_ok(Prayer::Fajr)?;
                        nontrivial |= moved_ok(Prayer::Imsaak)?;
                    }
                    _ => {
                        unchanged_except(&base, &o, &[pr], "offset")?;
                        nontrivial |= moved_ok(pr)?;
                    }
                }
                st.class("kind_minute_offset");
            }
            Perturb::FajrInterval(iv) | Perturb::IshaInterval(iv) => {
                let fajr = matches!(c.perturb, Perturb::FajrInterval(_));
                let mut s2 = spec.clone();
                if fajr {
                    s2.fajr_interval = Some(*iv);
                } else {
                    s2.isha_interval = Some(*iv);
                }
                let o = compute(&c.site, &s2, c.date, bw);
                let (target, anchor, name) = if fajr { (Prayer::Fajr, Prayer::Shurooq, "fajr-interval") } else { (Prayer::Isha, Prayer::Maghrib, "isha-interval") };
                if fajr {
                    unchanged_except(&base, &o, &[Prayer::Fajr, Prayer::Imsaak], name)?;
                } else {
                    unchanged_except(&base, &o, &[Prayer::Isha], name)?;
                }
                match (t(&o, anchor), t(&o, target)) {
                    (Some(a), Some(x)) => {
                        let got = if fajr { fwd(a, x) } else { fwd(x, a) } as f64;
                        if (got - iv.0 * 60.0).abs() > 1.0 + 1e-6 {
                            return Err(Failure::new(
                                format!("{}:wrong-value", name),
                                format!("{:?} = {:?} {} {} min (+-1 s)", target, anchor, if fajr { "-" } else { "+" }, iv.0),
                                format!("{:?} {} vs {:?} {} ({} s apart)", target, hms(x), anchor, hms(a), got),
                            ));
                        }
                        nontrivial = true;
                    }
                    (None, None) => {}
                    (a, x) => {
                        return Err(Failure::new(
                            format!("{}:validity", name),
                            format!("{:?} exists exactly when {:?} does", target, anchor),
                            format!("{:?}: {:?}, {:?}: {:?}", anchor, a, target, x),
                        ))
                    }
                }
                if fajr {
                    // Imsaak = Fajr - 1.5 min when Fajr is interval-defined and no Imsaak interval (DEF_IMSAAK_ANGLE used as minutes)
                    // (with an Imsaak interval in the base parameters: Imsaak = Fajr - that interval)
                    let gap = s2.intervals().2;
                    let gap_s = if gap != 0.0 { gap * 60.0 } else { 90.0 };
                    if let (Some(f), Some(im)) = (t(&o, Prayer::Fajr), t(&o, Prayer::Imsaak)) {
                        if (fwd(f, im) as f64 - gap_s).abs() > 1.0 + 1e-6 {
                            return Err(Failure::new(
                                "fajr-interval:imsaak",
                                format!("Imsaak {} min before an interval-defined Fajr", gap_s / 60.0),
                                format!("Fajr {} Imsaak {}", hms(f), hms(im)),
                            ));
                        }
                    }
                }
                st.class(if fajr { "kind_fajr_interval" } else { "kind_isha_interval" });
            }
            Perturb::ImsaakInterval(iv) => {
                let mut s2 = spec.clone();
                s2.imsaak_interval = Some(*iv);
                let o = compute(&c.site, &s2, c.date, bw);
                unchanged_except(&base, &o, &[Prayer::Imsaak], "imsaak-interval")?;
                match (o[&Prayer::Fajr], o[&Prayer::Imsaak]) {
                    (Ok(f), Ok(im)) => {
                        let got = fwd(gen::secs(f.time), gen::secs(im.time)) as f64;
                        if (got - iv.0 * 60.0).abs() > 1.0 + 1e-6 {
                            return Err(Failure::new(
                                "imsaak-interval:wrong-value",
                                format!("Imsaak = Fajr - {} min (+-1 s)", iv.0),
                                format!("Fajr {} Imsaak {} ({} s apart)", f.time, im.time, got),
                            ));
                        }
                        if f.extreme != im.extreme {
                            return Err(Failure::new("imsaak-interval:flag", "Imsaak flagged exactly when Fajr is", format!("Fajr {} Imsaak {}", f.extreme, im.extreme)));
                        }
                        nontrivial = true;
                    }
                    (Err(()), Err(())) => {}
                    (f, im) => {
                        return Err(Failure::new(
                            "imsaak-interval:validity",
                            "Imsaak (by interval) exists exactly when Fajr does",
                            format!("Fajr {:?} Imsaak {:?}", f, im),
                        ))
                    }
                }
                st.class("kind_imsaak_interval");
            }
            Perturb::SchoolSwap => {
                let mut s2 = spec.clone();
                s2.school = Some(if spec.school_k() == 1.0 { 2 } else { 1 });
                let o = compute(&c.site, &s2, c.date, bw);
                unchanged_except(&base, &o, &[Prayer::Asr], "school")?;
                if let (Some(a), Some(b)) = (t(&base, Prayer::Asr), t(&o, Prayer::Asr)) {
                    if a == b {
                        return Err(Failure::new("school:asr-unchanged", "Asr changes with the school", format!("Asr {} under both", hms(a))));
                    }
                    nontrivial = true;
                }
                st.class("kind_school");
            }
            Perturb::FajrAngle(d) | Perturb::IshaAngle(d) => {
                let fajr = matches!(c.perturb, Perturb::FajrAngle(_));
                let (fa, ia, _) = spec.angles();
                let cur = if fajr { fa } else { ia };
                let new = if cur + (*d as f64) < 0.0 { cur + 1.0 } else { cur + *d as f64 };
                let mut s2 = spec.clone();
                if fajr {
                    s2.fajr_angle = Some(F(new));
                } else {
                    s2.isha_angle = Some(F(new));
                }
                let o = compute(&c.site, &s2, c.date, bw);
                if spec.policy == gen::P_ANGLE {
                    // AngleBased acts as soon as any time is missing: compare only when that trigger is the same in both runs
                    let mut n1 = spec.clone();
                    n1.policy = gen::P_NONE;
                    let mut n2 = s2.clone();
                    n2.policy = gen::P_NONE;
                    let (c1, c2) = (compute(&c.site, &n1, c.date, bw), compute(&c.site, &n2, c.date, bw));
                    let inv = |t: &Times| PRAYERS.iter().skip(1).any(|p| t[p].is_err());
                    if inv(&c1) != inv(&c2) {
                        st.skip("angle_based_trigger_differs_between_the_two_runs");
                        return Ok(());
                    }
                    if inv(&c1) {
                        st.class("angle_perturbation_under_applied_angle_based_policy");
                    }
                }
                if spec.policy != gen::P_NONE {
                    st.class("angle_perturbation_under_a_policy");
                }
                if fajr {
                    unchanged_except(&base, &o, &[Prayer::Fajr, Prayer::Imsaak], "fajr-angle")?;
                } else {
                    unchanged_except(&base, &o, &[Prayer::Isha], "isha-angle")?;
                }
                let target = if fajr { Prayer::Fajr } else { Prayer::Isha };
                if t(&base, target).is_some() || t(&o, target).is_some() {
                    nontrivial = true;
                }
                st.class(if fajr { "kind_fajr_angle" } else { "kind_isha_angle" });
            }
            Perturb::Weather(w) => {
                let o = compute(&c.site, &spec, c.date, Some(*w));
                let (fi, ii, _) = spec.intervals();
                let mut allowed = vec![Prayer::Shurooq, Prayer::Maghrib];
                if ii != 0.0 {
                    allowed.push(Prayer::Isha);
                }
                if fi != 0.0 {
                    allowed.push(Prayer::Fajr);
                    allowed.push(Prayer::Imsaak);
                }
                unchanged_except(&base, &o, &allowed, "weather")?;
                if t(&base, Prayer::Shurooq).is_some() {
                    nontrivial = true;
                }
                st.class("kind_weather");
            }
            Perturb::MinuteOffsetToMidnight { .. } => unreachable!(),
            Perturb::DefaultWeather => {
                let o = compute(&c.site, &spec, c.date, Some(WeatherSpec { pressure: F(1010.0), temperature: F(14.0) }));
                unchanged_except(&base, &o, &[], "default-weather-vs-absent")?;
                nontrivial = true;
                st.class("kind_default_weather");
            }
        }
        // extreme Fajr => Imsaak 1.5 min earlier and extreme too (no Imsaak interval in the base spec)
        if let (Ok(f), im) = (base[&Prayer::Fajr], base[&Prayer::Imsaak]) {
            if f.extreme {
                st.class("base_with_extreme_fajr");
                match im {
                    Ok(im) => {
                        let got = fwd(gen::secs(f.time), gen::secs(im.time)) as f64;
                        // with an Imsaak interval in the base parameters the two clauses of the statement meet (interval vs
                        // 1.5 min): either gap is accepted there, the flag is required in both readings
                        let iv = spec.intervals().2;
                        let gap_ok = (got - 90.0).abs() <= 1.0 + 1e-6 || (iv != 0.0 && (got - iv * 60.0).abs() <= 1.0 + 1e-6);
                        if iv != 0.0 {
                            st.class("extreme_fajr_with_imsaak_interval");
                        }
                        if !im.extreme || !gap_ok {
                            return Err(Failure::new(
                                "extreme-fajr:imsaak",
                                "Imsaak flagged extreme and 1.5 min before an extreme Fajr",
                                gen::fmt_times(&base),
                            ));
                        }
                    }
                    Err(()) => {
                        return Err(Failure::new("extreme-fajr:imsaak-invalid", "Imsaak reported when Fajr is (extreme)", gen::fmt_times(&base)));
                    }
                }
            }
        }
        if nontrivial {
            st.nontrivial(c);
        }
        if st.want_sample() {
            st.sample(json!({"case": c, "base": gen::fmt_times(&base)}));
        }
        Ok(())
    }
    fn rule(&self) -> String {
        "generated (site |lat|<=62, GMT within 2 h, 9 methods, policy None or the library default, date mixture) x one perturbation (minute offset in [-90,90] on one of the 7 keys; Fajr/Isha/Imsaak interval in [1,120]; school swap; Fajr or Isha angle +-1 under policy None; weather over its range; default weather vs absent). Each case is a pair of calls. Perturbations are also made on top of Fajr/Isha/Imsaak intervals, minute offsets on all seven keys (+-30) and an explicit weather already present in the base parameters; offsets are also constructed so that the shifted time lands within +-3 s of midnight; one case in 41 is a short-night case (|lat| 59.5-62 around the solstice, all three intervals 80-120); every case is preceded by a priming call with a sibling input. Non-trivial = the perturbed prayer exists so the exact-shift/exact-value clause was evaluated; distinct by hash of the case".into()
    }
    fn assumptions(&self) -> Vec<String> {
        vec![
            "unrounded seconds are truncated, so an exact shift of x s is observed as x +- 1 s".into(),
            "an offset on the Imsaak key: only 'nothing else moves' is asserted (the statement makes no claim about Imsaak's own key)".into(),
            "angle perturbations are checked under no policy and under the Fajr/Isha-only policies that treat the two independently (seventh-of-night/day, nearest-latitude Fajr/Isha, AngleBased when its trigger is the same in both runs); the nearest-good-day search legitimately couples Fajr and Isha and is excluded".into(),
        ]
    }
}
