//! Great-circle initial bearing by vectors (DESIGN A.5). No spherical-trig identity shared
//! with the library.

pub const KAABA_LAT: f64 = 21.423333;
pub const KAABA_LON: f64 = 39.823333;

fn unit(lat: f64, lon: f64) -> [f64; 3] {
    let (p, l) = (lat.to_radians(), lon.to_radians());
    [p.cos() * l.cos(), p.cos() * l.sin(), p.sin()]
}
fn dot(a: [f64; 3], b: [f64; 3]) -> f64 {
    a[0] * b[0] + a[1] * b[1] + a[2] * b[2]
}

/// Bearing east of north, degrees in (-180,180].
pub fn bearing_east_of_north(lat: f64, lon: f64) -> f64 {
    let (p, l) = (lat.to_radians(), lon.to_radians());
    let k = unit(KAABA_LAT, KAABA_LON);
    let n = [-p.sin() * l.cos(), -p.sin() * l.sin(), p.cos()];
    let e = [-l.sin(), l.cos(), 0.0];
    dot(k, e).atan2(dot(k, n)).to_degrees()
}

/// Qibla in the library's convention: positive = counter-clockwise (west) of north.
pub fn qibla(lat: f64, lon: f64) -> f64 {
    -bearing_east_of_north(lat, lon)
}

/// Angular distance (degrees) between a point and the Kaaba.
pub fn dist_to_kaaba(lat: f64, lon: f64) -> f64 {
    let c = dot(unit(lat, lon), unit(KAABA_LAT, KAABA_LON)).clamp(-1.0, 1.0);
    c.acos().to_degrees()
}

pub fn self_test() -> Result<(), String> {
    // due north of the Kaaba on its meridian -> bearing 180 (south); due south -> 0
    let b = bearing_east_of_north(60.0, KAABA_LON);
    if (b.abs() - 180.0).abs() > 1e-9 {
        return Err(format!("qibla oracle: north of kaaba -> {}", b));
    }
    let b = bearing_east_of_north(-10.0, KAABA_LON);
    if b.abs() > 1e-9 {
        return Err(format!("qibla oracle: south of kaaba -> {}", b));
    }
    // Potomac MD (39.0 N, 77.2 W): about 56.6 deg east of north (library unit test says 56.x CW)
    let b = bearing_east_of_north(39.0181651, -77.2085914);
    if !(56.0..57.5).contains(&b) {
        return Err(format!("qibla oracle: Potomac -> {}", b));
    }
    Ok(())
}
