//! C09 Nearest-good-day fallback finds the closest date with valid twilight.

use chrono::{Datelike, NaiveDate};
use islamic_prayer_times::Prayer;
use proptest::prelude::*;
use serde::{Deserialize, Serialize};
use serde_json::json;

use super::common::*;
use crate::engine::{chunk, guarded, Failure, Prop, Stats, Tier, F};
use crate::gen::{self, WeatherSpec, ParamSpec, Site, Times, PRAYER_NAMES};

pub struct C09;

#[derive(Clone, Debug, Hash, PartialEq, Eq, Serialize, Deserialize)]
pub struct Case {
    pub site: Site,
    pub method: u8,
    /// false: NearestGoodDayFajrIshaInvalid (library default), true: NearestGoodDayAllPrayersAlways
    pub all_prayers: bool,
    pub date: NaiveDate,
    /// boundary-directed: move the latitude poleward (bisected to adjacent f64 values) to where the closest good date
    /// just stops being good, and evaluate the last few latitudes at which it still is (there the twilight event sits
    /// exactly on the edge of existence, |cos H| == 1)
    #[serde(default)]
    pub boundary_lat: bool,
    /// explicit weather for the call and for the model's conventional calls alike (a quarter of the generated cases): the
    /// copied times of the good date are the ones computed with the caller's weather
    #[serde(default)]
    pub weather: Option<WeatherSpec>,
}

/// Independent model of the search: k = 0,1,2,.. over (date-k, date+k), earlier first, using only
/// the public API with no policy to decide "both exist".
fn model(site: &Site, params_none: &islamic_prayer_times::Params, date: NaiveDate, weather: Option<WeatherSpec>) -> Option<(NaiveDate, Times, i64)> {
    for k in 0..=366i64 {
        for cand in [date - chrono::Duration::days(k), date + chrono::Duration::days(k)] {
            let tm = compute_p(site, params_none, cand, weather);
            if tm[&Prayer::Fajr].is_ok() && tm[&Prayer::Isha].is_ok() {
                return Some((cand, tm, k));
            }
            if k == 0 {
                break;
            }
        }
    }
    None
}

const SIX: [(Prayer, usize); 6] =
    [(Prayer::Fajr, 1), (Prayer::Shurooq, 2), (Prayer::Dhuhr, 3), (Prayer::Asr, 4), (Prayer::Maghrib, 5), (Prayer::Isha, 6)];

const FIXED_SITES: [(f64, f64, f64); 40] = [
    (58.3, -134.4, -9.0),
    (-54.9, -67.6, -3.0),
    (-55.0, -68.0, -3.0),
    (51.5, 0.0, 0.0),
    (-51.7, -57.9, -4.0),
    (60.2, 24.9, 2.0),
    (-60.0, 45.0, 3.0),
    (64.0, -21.9, 0.0),
    (-64.0, 160.0, 11.0),
    (55.75, 37.6, 3.0),
    (-46.4, 168.3, 12.0),
    (48.9, 2.3, 1.0),
    (-49.3, 70.2, 5.0),
    (53.5, -113.5, -7.0),
    (-53.2, -70.9, -4.0),
    (59.9, 10.7, 1.0),
    (-58.0, -26.0, -2.0),
    (62.0, 129.7, 9.0),
    (-62.2, -58.9, -4.0),
    (47.0, 8.0, 1.0),
    (-47.0, -74.0, -5.0),
    (56.0, -3.2, 0.0),
    (-56.5, 158.9, 11.0),
    (61.2, -149.9, -9.0),
    (-61.0, 0.0, 0.0),
    (50.1, 14.4, 1.0),
    (-50.0, 179.0, 12.0),
    (52.5, 13.4, 1.0),
    (-52.0, -180.0, -12.0),
    (63.4, 10.4, 1.0),
    (-63.4, 100.0, 7.0),
    (57.7, 12.0, 1.0),
    (-57.0, 110.0, 7.0),
    (54.7, 25.3, 2.0),
    (-54.0, 37.0, 2.0),
    (49.9, -97.1, -6.0),
    (-48.5, 69.5, 5.0),
    (46.2, 6.1, 1.0),
    (-46.0, -67.0, -4.0),
    (59.3, 18.1, 1.0),
];

impl C09 {
    fn boundary_directed(&self, c0: &Case, st: &mut Stats) -> Result<(), Failure> {
        // At the very edge of existence a one-ulp difference of the Julian Day decides validity. The library reaches a
        // candidate day as JD(date) -+ k, the model as JD(date -+ k); these are the same double only when
        // day - gmt/24 is computed exactly, i.e. when the offset is a multiple of 3 h (1/8 day). The directed cases
        // therefore use the nearest such offset (still within 1.5 h of the generated one).
        let mut c = c0.clone();
        c.site.gmt = F((3.0 * (c0.site.gmt.0 / 3.0).round()).clamp(-12.0, 12.0));
        let c = &c;
        let spec = ParamSpec::plain(c.method);
        let params_none = spec.build();
        let conv = compute_p(&c.site, &params_none, c.date, None);
        if conv[&Prayer::Fajr].is_ok() && conv[&Prayer::Isha].is_ok() {
            st.skip("boundary_directed_but_twilight_exists");
            return Ok(());
        }
        let Some((gdate, _, _)) = model(&c.site, &params_none, c.date, if c.boundary_lat { None } else { c.weather }) else {
            st.skip("model_finds_no_good_day_within_366_days");
            return Ok(());
        };
        let sign = if c.site.lat.0 >= 0.0 { 1.0 } else { -1.0 };
        let good = |lat: f64| -> bool {
            let mut s = c.site;
            s.lat = F(lat);
            let t = compute_p(&s, &params_none, gdate, None);
            t[&Prayer::Fajr].is_ok() && t[&Prayer::Isha].is_ok()
        };
        let (mut lo, mut hi) = (c.site.lat.0, sign * (c.site.lat.0.abs() + 3.0).min(64.0));
        if !good(lo) || good(hi) {
            st.skip("boundary_directed_bracket_not_found");
            return Ok(());
        }
        for _ in 0..80 {
            let mid = 0.5 * (lo + hi);
            if mid == lo || mid == hi {
                break;
            }
            if good(mid) {
                lo = mid;
            } else {
                hi = mid;
            }
        }
        for j in 0..5i64 {
            // lo is the last latitude (towards the pole) at which gdate is still good; step towards the equator
            let lat = f64::from_bits((lo.to_bits() as i64 - j) as u64);
            let mut c2 = c.clone();
            c2.site.lat = F(lat);
            c2.boundary_lat = false;
            self.check_inner(&c2, st).map_err(|mut f| {
                f.signature = format!("{}:good-day-at-edge-of-existence", f.signature);
                f.observed = format!("{} [latitude {:?}: {} f64 steps inside the latitude at which {} stops being a good day]", f.observed, lat, j, gdate);
                f
            })?;
        }
        st.class("boundary_directed_latitude_done");
        Ok(())
    }

    fn check_inner(&self, c: &Case, st: &mut Stats) -> Result<(), Failure> {
        if c.boundary_lat {
            return self.boundary_directed(c, st);
        }
        st.eval();
        let mut spec = ParamSpec::plain(c.method);
        let params_none = spec.build();
        spec.policy = if c.all_prayers { gen::P_NGD_ALL } else { gen::P_NGD_FI_INV };
        // history independence: a sibling call (same policy, one argument changed) on this thread first
        prime(&c.site, &spec, c.date, c.weather, prime_selector(&c.site, c.date));
        let got = compute(&c.site, &spec, c.date, c.weather);
        let conv = compute_p(&c.site, &params_none, c.date, c.weather);
        if c.weather.is_some() {
            st.class("explicit_weather");
        }
        let missing = conv[&Prayer::Fajr].is_err() || conv[&Prayer::Isha].is_err();
        if !missing && !c.all_prayers {
            // nothing for this property to decide (C08 covers the identity on good days)
            st.class("all_twilight_exists_on_requested_date");
            return Ok(());
        }
        let Some((gdate, gtimes, k)) = model(&c.site, &params_none, c.date, if c.boundary_lat { None } else { c.weather }) else {
            st.skip("model_finds_no_good_day_within_366_days");
            return Ok(());
        };
        let describe = |what: &str| -> String {
            format!(
                "{} (model: closest good date {} at distance {} days, conventional there: {})",
                what,
                gdate,
                k,
                gen::fmt_times(&gtimes)
            )
        };
        if c.all_prayers {
            for (p, i) in SIX {
                let want = gtimes[&p];
                match (want, got[&p]) {
                    (Ok(w), Ok(g)) => {
                        if g.time != w.time || !g.extreme {
                            return Err(Failure::new(
                                format!("nearest-good-day:all:{}", PRAYER_NAMES[i]),
                                describe(&format!("{} = {} flagged extreme", PRAYER_NAMES[i], w.time)),
                                gen::fmt_times(&got),
                            ));
                        }
                    }
                    (Err(()), Err(())) => {}
                    _ => {
                        return Err(Failure::new(
                            format!("nearest-good-day:all:validity:{}", PRAYER_NAMES[i]),
                            describe("all six times of the good date"),
                            gen::fmt_times(&got),
                        ))
                    }
                }
            }
        } else {
            for (p, i) in [(Prayer::Fajr, 1usize), (Prayer::Isha, 6usize)] {
                if conv[&p].is_ok() {
                    // exists conventionally: stays conventional and unflagged
                    if got[&p] != conv[&p] {
                        return Err(Failure::new(
                            format!("nearest-good-day:existing-time-changed:{}", PRAYER_NAMES[i]),
                            format!("{} stays conventional ({}) and unflagged", PRAYER_NAMES[i], conv[&p].unwrap().time),
                            gen::fmt_times(&got),
                        ));
                    }
                    continue;
                }
                let w = gtimes[&p].unwrap();
                match got[&p] {
                    Ok(g) if g.time == w.time && g.extreme => {}
                    _ => {
                        return Err(Failure::new(
                            format!("nearest-good-day:{}{}", PRAYER_NAMES[i], if got[&p].is_err() { ":not-reported" } else { ":wrong-value" }),
                            describe(&format!("{} = {} flagged extreme", PRAYER_NAMES[i], w.time)),
                            gen::fmt_times(&got),
                        ))
                    }
                }
            }
        }
        if missing {
            st.nontrivial(c);
            st.max("distance_to_good_day", k as f64);
            st.class(if c.site.lat.0 >= 0.0 { "missing_twilight_north" } else { "missing_twilight_south" });
            if gdate.year() != c.date.year() {
                st.class("good_day_in_other_calendar_year");
            }
            if k as u32 > c.date.ordinal() {
                st.class("good_day_farther_than_day_of_year");
            }
            if gdate < c.date {
                st.class("good_day_earlier");
            } else {
                st.class("good_day_later");
            }
            // tie: both sides good at distance k
            let later = c.date + chrono::Duration::days(k);
            if gdate < c.date {
                let tl = compute_p(&c.site, &params_none, later, c.weather);
                if tl[&Prayer::Fajr].is_ok() && tl[&Prayer::Isha].is_ok() {
                    st.class("tie_both_sides_good_earlier_wins");
                }
            }
        }
        if c.all_prayers {
            st.class("all_prayers_variant");
        }
        if st.want_sample() {
            st.sample(json!({"case": c, "good_date": gdate.to_string(), "distance": k, "result": gen::fmt_times(&got)}));
        }
        Ok(())
    }
}

impl Prop for C09 {
    type Case = Case;
    fn id(&self) -> &'static str {
        "C09"
    }
    fn cases(&self, tier: Tier) -> u64 {
        tier.pick(20_000, 500_000)
    }
    fn max_shrink_iters(&self) -> u32 {
        400
    }
    fn strategy(&self, _tier: Tier) -> BoxedStrategy<Case> {
        let lat = (46.0..=64.0f64, any::<bool>()).prop_map(|(l, s)| if s { l } else { -l });
        let lat = prop_oneof![6 => lat, 1 => prop_oneof![Just(64.0), Just(-64.0), Just(46.0), Just(-46.0)], 2 => (55.0..=64.0f64, any::<bool>()).prop_map(|(l, s)| if s { l } else { -l })].boxed();
        let weather = prop_oneof![3 => Just(None), 1 => gen::weather_opt()];
        (gen::site_lat(lat, 2.0), gen::pick(&gen::ANGLE_METHODS), prop_oneof![3 => Just(false), 1 => Just(true)], 1600..=2399i32, 0.0..1.0f64, 0u8..10, prop_oneof![15 => Just(false), 1 => Just(true)], weather)
            .prop_map(|(site, method, all_prayers, year, u, kind, boundary_lat, weather)| {
                // dates weighted to the local summer and to the first/last 15 days of the year (constructed)
                let north = site.lat.0 >= 0.0;
                let len = if gen::is_leap(year) { 366 } else { 365 };
                let doy: i64 = match kind {
                    0..=4 => {
                        // local summer: centred on Jun 21 (north) / Dec 21 (south), +-75 days
                        let centre = if north { 172 } else { 355 };
                        (centre + ((u * 151.0) as i64 - 75)).rem_euclid(len)
                    }
                    5 | 6 => (u * 15.0) as i64,
                    7 | 8 => len - 1 - (u * 15.0) as i64,
                    _ => (u * len as f64) as i64,
                };
                let date = gen::clamp_date(gen::ymd(year, 1, 1) + chrono::Duration::days(doy.clamp(0, len - 1)));
                Case { site, method, all_prayers, date, boundary_lat, weather: if boundary_lat { None } else { weather } }
            })
            .boxed()
    }
    fn check(&self, c: &Case, st: &mut Stats) -> Result<(), Failure> {
        self.check_inner(c, st)
    }
    fn enumerate(&self, tier: Tier, shard: usize, nshards: usize, st: &mut Stats) -> Result<(), (Case, Failure)> {
        // fixed sites x every day of whole years (quick: 8 sites x leap year 2024; thorough: 40 sites x 2023..2026)
        let (nsites, first, last) = match tier {
            Tier::Quick => (8usize, gen::ymd(2024, 1, 1), gen::ymd(2024, 12, 31)),
            Tier::Thorough => (40usize, gen::ymd(2023, 1, 1), gen::ymd(2026, 12, 31)),
        };
        let ndays = (last - first).num_days() as u64 + 1;
        let total = ndays * nsites as u64;
        let (lo, hi) = chunk(total, shard, nshards);
        for idx in lo..hi {
            // interleave so that every shard gets a mix of sites and seasons
            let si = (idx % nsites as u64) as usize;
            let di = idx / nsites as u64;
            let (lat, lon, gmt) = FIXED_SITES[si];
            let c = Case {
                site: Site { lat: F(lat), lon: F(lon), elev: F(0.0), gmt: F(gmt) },
                method: gen::ANGLE_METHODS[(si + di as usize) % 6],
                all_prayers: (si + di as usize) % 5 == 0,
                date: first + chrono::Duration::days(di as i64),
                boundary_lat: false,
                weather: None,
            };
            guarded(&c, || self.check_inner(&c, st))?;
        }
        Ok(())
    }
    fn rule(&self) -> String {
        "generated (|lat| in [46,64] of either sign, GMT within 2 h, 6 angle methods, both nearest-good-day variants, year 1600-2399, day of year weighted to the local summer and to the first/last 15 days of the year, by construction) plus a sweep of fixed sites x every day of whole years (quick: 8 sites x 2024; thorough: 40 sites x 2023-2026). The oracle is an independent outward search through the public API with no policy. One generated case in 16 is boundary-directed (latitude bisected to where the closest good day just stops being good; GMT offset a multiple of 3 h there); every case is preceded by a priming call with a sibling input. Non-trivial = Fajr or Isha does not exist on the requested date; distinct by hash of the case".into()
    }
    fn assumptions(&self) -> Vec<String> {
        vec![
            "a date is 'good' when prayer_times_dt with ExtremeLatitudeMethod::None reports both Fajr and Isha".into(),
            "'equal to the second': the fallback value must equal the good date's conventional time exactly (NaiveTime equality, RoundSeconds::None)".into(),
            "when only one of Fajr/Isha is missing under the 'invalid' variant, the existing one stays conventional (C08) and the missing one comes from the good date".into(),
        ]
    }
}
