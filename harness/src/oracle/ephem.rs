//! Independent solar ephemeris (DESIGN Appendix A.1-A.3). Shares no code, table or formula
//! path with the library: integer Fliegel-Van Flandern JDN, Meeus ch. 25 low-accuracy Sun,
//! IAU-1982 GMST with the Omega nutation term.

use chrono::{Datelike, NaiveDate};

#[inline]
fn rad(d: f64) -> f64 {
    d * std::f64::consts::PI / 180.0
}
#[inline]
fn deg(r: f64) -> f64 {
    r * 180.0 / std::f64::consts::PI
}
#[inline]
pub fn norm360(x: f64) -> f64 {
    let y = x % 360.0;
    if y < 0.0 {
        y + 360.0
    } else {
        y
    }
}
/// reduce to (-180, 180]
#[inline]
pub fn norm180(x: f64) -> f64 {
    let y = norm360(x);
    if y > 180.0 {
        y - 360.0
    } else {
        y
    }
}

/// Julian Day Number (integer, noon-based) of a proleptic Gregorian civil date.
pub fn jdn(y: i64, m: i64, d: i64) -> i64 {
    let a = (14 - m) / 12;
    let yy = y + 4800 - a;
    let mm = m + 12 * a - 3;
    d + (153 * mm + 2) / 5 + 365 * yy + yy / 4 - yy / 100 + yy / 400 - 32045
}

/// JD of local midnight (00:00 local clock time at GMT offset `gmt` hours) of a civil date.
pub fn jd0(date: NaiveDate, gmt: f64) -> f64 {
    jdn(date.year() as i64, date.month() as i64, date.day() as i64) as f64 - 0.5 - gmt / 24.0
}

/// JD of a clock time `secs` seconds after local midnight.
pub fn jd_at(date: NaiveDate, gmt: f64, secs: f64) -> f64 {
    jd0(date, gmt) + secs / 86400.0
}

#[derive(Clone, Copy, Debug)]
pub struct Sun {
    /// apparent right ascension, degrees [0,360)
    pub ra: f64,
    /// apparent declination, degrees
    pub dec: f64,
    /// Greenwich apparent sidereal time, degrees [0,360)
    pub gast: f64,
}

pub fn sun(jd: f64) -> Sun {
    let t = (jd - 2451545.0) / 36525.0;
    let l0 = 280.46646 + 36000.76983 * t + 0.0003032 * t * t;
    let m = 357.52911 + 35999.05029 * t - 0.0001537 * t * t;
    let mr = rad(m);
    let c = (1.914602 - 0.004817 * t - 0.000014 * t * t) * mr.sin()
        + (0.019993 - 0.000101 * t) * (2.0 * mr).sin()
        + 0.000289 * (3.0 * mr).sin();
    let om = rad(125.04 - 1934.136 * t);
    let lam = rad(l0 + c - 0.00569 - 0.00478 * om.sin());
    let eps0 = 23.0 + 26.0 / 60.0 + 21.448 / 3600.0 - (46.8150 / 3600.0) * t - (0.00059 / 3600.0) * t * t
        + (0.001813 / 3600.0) * t * t * t;
    let eps = rad(eps0 + 0.00256 * om.cos());
    let ra = norm360(deg((eps.cos() * lam.sin()).atan2(lam.cos())));
    let dec = deg((eps.sin() * lam.sin()).asin());
    let theta = 280.46061837 + 360.98564736629 * (jd - 2451545.0) + 0.000387933 * t * t - t * t * t / 38710000.0
        - 0.00478 * om.sin() * eps.cos();
    Sun { ra, dec, gast: norm360(theta) }
}

/// Local hour angle of the Sun in degrees, (-180,180], for east longitude `lon`.
pub fn hour_angle(jd: f64, lon: f64) -> f64 {
    let s = sun(jd);
    norm180(s.gast + lon - s.ra)
}

/// Geometric altitude of the Sun's centre (degrees) at instant `jd` for a site.
pub fn altitude(jd: f64, lat: f64, lon: f64) -> f64 {
    let s = sun(jd);
    let h = rad(norm180(s.gast + lon - s.ra));
    alt_from(lat, s.dec, deg(h))
}

/// Altitude from latitude, declination and hour angle (all degrees).
pub fn alt_from(lat: f64, dec: f64, ha: f64) -> f64 {
    let (p, d, h) = (rad(lat), rad(dec), rad(ha));
    deg((p.sin() * d.sin() + p.cos() * d.cos() * h.cos()).clamp(-1.0, 1.0).asin())
}

/// Declination at local midnight of the date (the "date's declination" of C03/C04/C06).
pub fn dec0(date: NaiveDate, gmt: f64) -> f64 {
    sun(jd0(date, gmt)).dec
}

pub fn max_alt(lat: f64, dec: f64) -> f64 {
    90.0 - (lat - dec).abs()
}
pub fn min_alt(lat: f64, dec: f64) -> f64 {
    (lat + dec).abs() - 90.0
}

/// arccot(k + tan|lat-dec|) in degrees.
pub fn asr_alt(k: f64, lat: f64, dec: f64) -> f64 {
    let x = k + rad((lat - dec).abs()).tan();
    deg((1.0 / x).atan())
}

/// Meeus example 25.a: 1992-10-13 0h TD (JD 2448908.5) -> RA 198.38083, Dec -7.78507.
pub fn self_test() -> Result<(), String> {
    let s = sun(2448908.5);
    if (s.ra - 198.38083).abs() > 2e-5 || (s.dec + 7.78507).abs() > 2e-5 {
        return Err(format!("Meeus 25.a: got ra={:.5} dec={:.5}", s.ra, s.dec));
    }
    if jdn(2000, 1, 1) != 2451545 || jdn(1957, 10, 4) != 2436116 || jdn(1600, 1, 1) != 2305448 {
        return Err("JDN self-test".into());
    }
    // Meeus example 12.a/b: 1987-04-10 0h UT mean sidereal time 197.693195 deg; apparent 13h10m46.1351s = 197.692229
    let g = sun(2446895.5).gast;
    if (g - 197.692229).abs() > 3e-4 {
        return Err(format!("GAST self-test: {}", g));
    }
    Ok(())
}
