#!/usr/bin/env python3
"""Automatic mutation run: sensitivity of the checks to small syntactic changes nobody hand-picked.

usage: tools/automut.py [--n 300] [--seed 1] [--jobs 4] [--out sensitivity/automut.jsonl] [--files a.rs,b.rs]

Mutation sites are enumerated over /repo/src (test modules, comments, the hook module and the CLI help text
excluded) with a fixed operator set (arithmetic/comparison/boolean operator swaps, literal +-1, floor<->ceil,
sin<->cos, dropped abs(), dropped `!`, deleted compound-assignment statement); N sites are sampled with the
given seed, stratified by file. Each mutant is applied in a scratch worktree of /repo HEAD (never /repo itself):
  1. `cargo test --offline` there: does not compile -> "nocompile"; a test fails -> "repo_tests" (the repository's
     own suite already kills it: not a change "that still passes the existing tests");
  2. otherwise the harness (a private copy pointing at the scratch worktree) is rebuilt and the quick checks mapped
     to the mutated file are run (regression tier off) until one exits 1 -> "caught:<ID>"; if none does, all other
     quick checks are run as well -> "caught:<ID>" or "survived".
Survivors are either equivalent mutants or holes; they are reviewed by hand (sensitivity/automut_review.md).
"""
import json, os, random, re, shutil, subprocess, sys, threading, time

VERIF = '/verif'
REPO = '/repo'
BASE = '/tmp/am'

FILE_CHECKS = {
    'src/prayer_times/hours.rs': ['C01', 'C02', 'C03', 'C04', 'C11', 'C05', 'C06', 'C13', 'C20', 'C07', 'C12'],
    'src/prayer_times/ext_lat.rs': ['C08', 'C10', 'C09', 'C07', 'C12', 'C05'],
    'src/prayer_times/mod.rs': ['C12', 'C14', 'C15', 'C08', 'C05', 'C02', 'C19'],
    'src/prayer_times/date.rs': ['C14', 'C15', 'C19'],
    'src/prayer_times/params.rs': ['C03', 'C04', 'C12', 'C10', 'C05', 'C19'],
    'src/geo/astro.rs': ['C01', 'C02', 'C03', 'C13', 'C04', 'C06', 'C10', 'C20'],
    'src/geo/julian_day.rs': ['C01', 'C13', 'C02', 'C14'],
    'src/geo/qibla.rs': ['C16'],
    'src/geo/coordinates.rs': ['C18', 'C16', 'C19'],
    'src/geo/weather.rs': ['C18', 'C12', 'C02'],
    'src/hijri_date.rs': ['C17', 'C19'],
    'src/lib.rs': ['C18', 'C19'],
    'src/angle.rs': ['C01', 'C02', 'C03', 'C13', 'C20', 'C16'],
    'src/main.rs': ['C19'],
    'src/cli.rs': ['C19'],
    'src/error.rs': ['C18'],
}
ALL = [f'C{i:02d}' for i in range(1, 21)]

OPS = [
    ('add->sub', re.compile(r'(?<=[\w\)\]\.]) \+ (?=[\w\(\-\*&])'), ' - '),
    ('sub->add', re.compile(r'(?<=[\w\)\]\.]) - (?=[\w\(\*&])'), ' + '),
    ('mul->div', re.compile(r'(?<=[\w\)\]\.]) \* (?=[\w\(\-])'), ' / '),
    ('div->mul', re.compile(r'(?<=[\w\)\]\.]) / (?=[\w\(\-])'), ' * '),
    ('lt->le', re.compile(r' < (?=[\w\(\-\*&])'), ' <= '),
    ('le->lt', re.compile(r' <= '), ' < '),
    ('gt->ge', re.compile(r' > (?=[\w\(\-\*&])'), ' >= '),
    ('ge->gt', re.compile(r' >= '), ' > '),
    ('lt->gt', re.compile(r' < (?=[\w\(\-\*&])'), ' > '),
    ('eq->ne', re.compile(r' == '), ' != '),
    ('ne->eq', re.compile(r' != '), ' == '),
    ('and->or', re.compile(r' && '), ' || '),
    ('or->and', re.compile(r' \|\| '), ' && '),
    ('addassign->subassign', re.compile(r' \+= '), ' -= '),
    ('subassign->addassign', re.compile(r' -= '), ' += '),
    ('floor->ceil', re.compile(r'\.floor\(\)'), '.ceil()'),
    ('sin->cos', re.compile(r'\.sin\(\)'), '.cos()'),
    ('cos->sin', re.compile(r'\.cos\(\)'), '.sin()'),
    ('drop-abs', re.compile(r'\.abs\(\)'), ''),
    ('drop-not', re.compile(r'(?<=[\(\s])!(?=[\w\(])'), ''),
    ('true->false', re.compile(r'\btrue\b'), 'false'),
    ('false->true', re.compile(r'\bfalse\b'), 'true'),
    ('is_err->is_ok', re.compile(r'\.is_err\(\)'), '.is_ok()'),
    ('is_ok->is_err', re.compile(r'\.is_ok\(\)'), '.is_err()'),
]
LIT = re.compile(r'(?<![\w\.])(\d+)\.(\d*)(?![\w\.])')        # float literal 12. / 12.5
INTLIT = re.compile(r'(?<![\w\.])(\d+)(?![\w\.\d])')


def sh(cmd, cwd=None, env=None, timeout=3600):
    """Runs a shell command in its own process group; on timeout the whole group is killed (a mutant that makes the
    library loop for ever must not leave orphaned test or check processes behind)."""
    import signal
    e = dict(os.environ)
    if env: e.update(env)
    p = subprocess.Popen(cmd, shell=True, cwd=cwd, env=e, stdout=subprocess.PIPE, stderr=subprocess.PIPE, text=True, start_new_session=True)
    try:
        out, err = p.communicate(timeout=timeout)
        rc = p.returncode
    except subprocess.TimeoutExpired:
        try:
            os.killpg(p.pid, signal.SIGKILL)
        except ProcessLookupError:
            pass
        out, err = p.communicate()
        rc = 124
    class R: pass
    r = R(); r.returncode = rc; r.stdout = out or ''; r.stderr = err or ''
    return r



def sites(files):
    out = []
    for f in files:
        src = open(os.path.join(REPO, f)).read().split('\n')
        in_block_comment = False
        for i, line in enumerate(src):
            if line.strip().startswith('#[cfg(test)]'):
                break
            s = line.strip()
            if s.startswith('//') or s.startswith('#[') or s.startswith('use ') or not s:
                continue
            if s.startswith('/*'): in_block_comment = True
            if in_block_comment:
                if '*/' in s: in_block_comment = False
                continue
            code = line.split('//')[0]
            if '"' in code and ('println!' in code or 'write!' in code or 'help' in code or 'format!' in code):
                continue
            for name, rx, rep in OPS:
                for m in rx.finditer(code):
                    new = code[:m.start()] + rep + code[m.end():] + line[len(code):]
                    if new != line:
                        out.append({'file': f, 'line': i + 1, 'op': name, 'old': line, 'new': new})
            for m in LIT.finditer(code):
                if '"' in code[:m.start()]:
                    continue
                v = m.group(0)
                try:
                    x = float(v)
                except ValueError:
                    continue
                for name, y in (('lit+1', x + 1.0), ('lit*1.01', x * 1.01 if x != 0 else 0.01)):
                    nv = repr(y)
                    new = code[:m.start()] + nv + code[m.end():] + line[len(code):]
                    out.append({'file': f, 'line': i + 1, 'op': name, 'old': line, 'new': new})
            if 'const ' not in code and '[' not in code:
                for m in INTLIT.finditer(code):
                    if '"' in code[:m.start()] or code[max(0, m.start() - 1)] == '_':
                        continue
                    x = int(m.group(1))
                    if x > 100000:
                        continue
                    new = code[:m.start()] + str(x + 1) + code[m.end():] + line[len(code):]
                    out.append({'file': f, 'line': i + 1, 'op': 'int+1', 'old': line, 'new': new})
    return out


def setup(j):
    d = f'{BASE}/{j}'
    os.makedirs(d, exist_ok=True)
    if not os.path.exists(f'{d}/repo'):
        sh(f'git -C {REPO} worktree add --detach {d}/repo HEAD')
    else:
        sh(f'git -C {d}/repo checkout -- . && git -C {d}/repo checkout -q --detach $(git -C {REPO} rev-parse HEAD)')
    sh(f'rm -rf {d}/harness && cp -r {VERIF}/harness {d}/harness && rm -rf {d}/harness/fuzz')
    ct = open(f'{d}/harness/Cargo.toml').read().replace('path = "/repo"', f'path = "{d}/repo"')
    open(f'{d}/harness/Cargo.toml', 'w').write(ct)
    open(f'{d}/harness/.cargo/config.toml', 'w').write(f'[net]\noffline = true\n[build]\ntarget-dir = "{d}/target"\n')
    return d


def run_one(d, m, threads):
    fp = f'{d}/repo/{m["file"]}'
    src = open(fp).read().split('\n')
    if src[m['line'] - 1] != m['old']:
        return {'status': 'stale'}
    src[m['line'] - 1] = m['new']
    open(fp, 'w').write('\n'.join(src))
    rec = {}
    try:
        env = {'CARGO_NET_OFFLINE': 'true', 'CARGO_TARGET_DIR': f'{d}/target_t', 'CARGO_BUILD_JOBS': str(threads)}
        t = sh('cargo test --offline --no-fail-fast 2>&1', cwd=f'{d}/repo', env=env, timeout=900)
        lines = [l for l in t.stdout.splitlines() if l.startswith('test result')]
        if t.returncode == 124:
            return {'status': 'repo_tests', 'detail': 'test suite hangs (timeout 900 s)'}
        if not lines:
            return {'status': 'nocompile'}
        p = sum(int(l.split()[3]) for l in lines); f = sum(int(l.split()[5]) for l in lines)
        rec['repo_tests'] = [p, f]
        if f > 0 or p < 94:
            rec['status'] = 'repo_tests'
            return rec
        henv = {'CARGO_NET_OFFLINE': 'true', 'CARGO_TARGET_DIR': f'{d}/target', 'VERIF_OUT': f'{d}/out', 'VERIF_DIR': VERIF,
                'VERIF_NO_REGRESSIONS': '1', 'VERIF_CLI_BIN': f'{d}/target/release/islamic_prayer_times', 'CARGO_BUILD_JOBS': str(threads)}
        b = sh('cargo build --release --offline 2>&1 | tail -3', cwd=f'{d}/harness', env=henv, timeout=1200)
        if 'error' in b.stdout:
            return {'status': 'nocompile', 'detail': 'harness build (verif-hooks) failed'}
        first = FILE_CHECKS.get(m['file'], [])
        # a change to the ephemeris / Julian Day / angle helpers acts only through the computed hours: the checks
        # mapped to those files are the ones with an independent astronomical oracle or a smoothness / consistency
        # relation; the remaining checks compare the library with itself and are not run for them
        numeric_only = m['file'] in ('src/geo/astro.rs', 'src/geo/julian_day.rs', 'src/angle.rs')
        order = first + ([] if numeric_only else [c for c in ALL if c not in first])
        rec['checks'] = {}
        for cid in order:
            if cid == 'C19':
                sh(f'cargo build --release --offline --bin islamic_prayer_times --manifest-path {d}/repo/Cargo.toml 2>&1 | tail -1', env=henv, timeout=1200)
            t0 = time.time()
            c = sh(f'{d}/target/release/ipt-verif {cid} quick', env=henv, timeout=1800)
            rec['checks'][cid] = c.returncode
            if c.returncode == 1:
                sig = [l.strip() for l in c.stdout.splitlines() if l.strip().startswith('signature:')]
                rec['status'] = f'caught:{cid}'
                rec['signature'] = sig[:1]
                rec['wall_s'] = round(time.time() - t0, 1)
                return rec
            if c.returncode not in (0, 1):
                rec.setdefault('infra', []).append(cid)
        rec['status'] = 'survived'
        return rec
    finally:
        sh(f'git -C {d}/repo checkout -- .')
        shutil.rmtree(f'{d}/out', ignore_errors=True)


def main():
    args = sys.argv[1:]
    n, seed, jobs, out, files = 300, 1, 4, f'{VERIF}/sensitivity/automut.jsonl', None
    while args:
        a = args.pop(0)
        if a == '--n': n = int(args.pop(0))
        elif a == '--seed': seed = int(args.pop(0))
        elif a == '--jobs': jobs = int(args.pop(0))
        elif a == '--out': out = args.pop(0)
        elif a == '--files': files = args.pop(0).split(',')
    files = files or sorted(FILE_CHECKS)
    all_sites = sites(files)
    rnd = random.Random(seed)
    byfile = {}
    for s in all_sites: byfile.setdefault(s['file'], []).append(s)
    total = len(all_sites)
    # stratified by file; a file's weight is capped at 150 sites so that the coefficient tables of astro.rs
    # (three quarters of all sites, most of them far below any tolerance) do not crowd out the logic
    wsum = sum(min(len(ss), 150) for ss in byfile.values())
    chosen = []
    for f, ss in sorted(byfile.items()):
        k = max(2, round(n * min(len(ss), 150) / wsum))
        rnd.shuffle(ss)
        chosen += ss[:k]
    rnd.shuffle(chosen)
    chosen = chosen[:n]
    done = set()
    if os.path.exists(out):
        for l in open(out):
            try:
                r = json.loads(l); done.add((r['file'], r['line'], r['op'], r['new']))
            except Exception: pass
    todo = [m for m in chosen if (m['file'], m['line'], m['op'], m['new'].strip()) not in done]
    print(f'{total} sites in {len(byfile)} files; {len(chosen)} sampled (seed {seed}); {len(todo)} to run on {jobs} workers', flush=True)
    lock = threading.Lock()
    head = sh(f'git -C {REPO} rev-parse --short HEAD').stdout.strip()
    threads = max(2, 16 // jobs)

    def worker(j):
        d = setup(j)
        while True:
            with lock:
                if not todo: return
                m = todo.pop()
            t0 = time.time()
            try:
                r = run_one(d, m, threads)
            except Exception as ex:
                r = {'status': 'error', 'detail': str(ex)[:200]}
            r.update({'file': m['file'], 'line': m['line'], 'op': m['op'], 'old': m['old'].strip(), 'new': m['new'].strip(), 'base': head, 'secs': round(time.time() - t0, 1)})
            with lock:
                open(out, 'a').write(json.dumps(r) + '\n')
                print(f"{m['file']}:{m['line']} {m['op']}: {r['status']} ({r['secs']} s)", flush=True)

    ts = [threading.Thread(target=worker, args=(j,)) for j in range(jobs)]
    for t in ts: t.start()
    for t in ts: t.join()
    # summary
    res = [json.loads(l) for l in open(out)]
    cnt = {}
    for r in res:
        k = r['status'].split(':')[0]
        cnt[k] = cnt.get(k, 0) + 1
    print('summary:', cnt)


if __name__ == '__main__':
    main()
