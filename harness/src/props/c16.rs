//! C16 Qibla is the great-circle bearing to the Kaaba.

use islamic_prayer_times::{Coordinates, Elevation, Latitude, Longitude, Qibla, Rotation};
use proptest::prelude::*;
use serde::{Deserialize, Serialize};
use serde_json::json;

use crate::engine::{Failure, Prop, Stats, Tier, F};
use crate::oracle::qibla as oq;

pub struct C16;

#[derive(Clone, Debug, Hash, PartialEq, Eq, Serialize, Deserialize)]
pub struct Case {
    pub lat: F,
    pub lon: F,
    pub elev: F,
    pub elev2: F,
}

/// Points within 0.1 deg of the Kaaba or its antipode are constructed out by pushing the
/// latitude away (never filtered).
fn push_out(lat: f64, lon: f64) -> (f64, f64) {
    let d = oq::dist_to_kaaba(lat, lon);
    if d < 0.1000001 {
        ((lat + 0.3).min(89.999), lon)
    } else if d > 179.8999999 {
        ((lat - 0.3).max(-89.999), lon)
    } else {
        (lat, lon)
    }
}

fn wrap_lon(l: f64) -> f64 {
    let mut x = l;
    while x > 180.0 {
        x -= 360.0;
    }
    while x < -180.0 {
        x += 360.0;
    }
    x
}

impl Prop for C16 {
    type Case = Case;
    fn id(&self) -> &'static str {
        "C16"
    }
    fn cases(&self, tier: Tier) -> u64 {
        tier.pick(2_000_000, 100_000_000)
    }
    fn strategy(&self, _tier: Tier) -> BoxedStrategy<Case> {
        let lat = prop_oneof![
            10 => -89.999..=89.999f64,
            1 => prop_oneof![Just(89.999), Just(-89.999), Just(0.0), Just(oq::KAABA_LAT), Just(-oq::KAABA_LAT)],
            2 => (-2.0..=2.0f64).prop_map(|d| oq::KAABA_LAT + d),
            2 => (-2.0..=2.0f64).prop_map(|d| -oq::KAABA_LAT + d),
            1 => (0.0..=0.5f64, any::<bool>()).prop_map(|(d, s)| if s { 89.999 - d } else { -89.999 + d }),
        ];
        let lon = prop_oneof![
            8 => -180.0..=180.0f64,
            3 => (-0.5..=0.5f64).prop_map(|d| oq::KAABA_LON + d),
            1 => Just(oq::KAABA_LON),
            3 => (-0.5..=0.5f64).prop_map(|d| wrap_lon(oq::KAABA_LON - 180.0 + d)),
            1 => Just(oq::KAABA_LON - 180.0),
            1 => prop_oneof![Just(180.0), Just(-180.0), Just(0.0)],
            2 => (-2.0..=2.0f64).prop_map(|d| oq::KAABA_LON + d),
            1 => (0.0..=0.5f64, any::<bool>()).prop_map(|(d, s)| if s { 180.0 - d } else { -180.0 + d }),
        ];
        let elev = prop_oneof![2 => Just(0.0), 4 => -420.0..=8848.0f64, 1 => prop_oneof![Just(-420.0), Just(8848.0)]];
        let general = (lat, lon).boxed();
        // constructed: points at angular distance 0.1..0.3 deg from the Kaaba or its antipode (just outside the exemption)
        let ring = (0.1001..=0.3f64, 0.0..=360.0f64, any::<bool>())
            .prop_map(|(dist, brg, anti)| {
                let (p0, l0) = if anti { (-oq::KAABA_LAT, wrap_lon(oq::KAABA_LON + 180.0)) } else { (oq::KAABA_LAT, oq::KAABA_LON) };
                let (p0r, dr, br) = (p0.to_radians(), dist.to_radians(), brg.to_radians());
                let lat = (p0r.sin() * dr.cos() + p0r.cos() * dr.sin() * br.cos()).asin();
                let lon = l0.to_radians() + (br.sin() * dr.sin() * p0r.cos()).atan2(dr.cos() - p0r.sin() * lat.sin());
                (lat.to_degrees(), wrap_lon(lon.to_degrees()))
            })
            .boxed();
        // constructed: points on (or within 1e-9..1e-3 deg of) the curve where the Qibla is exactly due east / west,
        // found by bisecting the oracle bearing over the latitude at a generated longitude
        let quarter = (-180.0..=180.0f64, -9.0..=-3.0f64, any::<bool>())
            .prop_map(|(lon, e, up)| {
                let f = |lat: f64| oq::qibla(lat, lon).abs() - 90.0;
                let (mut lo, mut hi) = (-89.9f64, 89.9f64);
                if f(lo) * f(hi) > 0.0 {
                    return (10.0, lon);
                }
                let flo = f(lo);
                for _ in 0..80 {
                    let mid = 0.5 * (lo + hi);
                    if f(mid) * flo > 0.0 {
                        lo = mid;
                    } else {
                        hi = mid;
                    }
                }
                let d = 10f64.powf(e);
                ((lo + if up { d } else { -d }).clamp(-89.999, 89.999), lon)
            })
            .boxed();
        let point = prop_oneof![12 => general, 1 => ring, 1 => quarter];
        (point, elev.clone(), elev)
            .prop_map(|((lat, lon), e1, e2)| {
                let (lat, lon) = push_out(lat, lon);
                Case { lat: F(lat), lon: F(lon), elev: F(e1), elev2: F(e2) }
            })
            .boxed()
    }
    fn self_test(&self) -> Result<(), String> {
        oq::self_test()
    }
    fn check(&self, c: &Case, st: &mut Stats) -> Result<(), Failure> {
        st.eval();
        let (lat, lon) = (c.lat.0, c.lon.0);
        let d = oq::dist_to_kaaba(lat, lon);
        if !(0.1..=179.9).contains(&d) {
            st.skip("within_0.1deg_of_kaaba_or_antipode");
            return Ok(());
        }
        let mk = |e: f64| {
            Coordinates::new(
                Latitude::try_from(lat).unwrap(),
                Longitude::try_from(lon).unwrap(),
                Elevation::try_from(e).unwrap(),
            )
        };
        // history independence: a sibling query (a position a fraction of a microdegree or 40 degrees away, or another
        // elevation) on this thread first; its result is discarded
        {
            let h = crate::engine::mix(&[lat.to_bits(), lon.to_bits()]);
            let (dl, dn) = match h % 4 {
                0 => (4e-7, -3e-7),
                1 => (-2e-8, 6e-7),
                2 => (0.0, 0.0),
                _ => (7.0, -40.0),
            };
            let sib = Coordinates::new(
                Latitude::try_from((lat + dl).clamp(-90.0, 90.0)).unwrap(),
                Longitude::try_from((lon + dn).clamp(-180.0, 180.0)).unwrap(),
                Elevation::try_from(if h % 8 < 4 { c.elev.0 } else { c.elev2.0 }).unwrap(),
            );
            std::hint::black_box(Qibla::new(sib));
        }
        let q = Qibla::new(mk(c.elev.0));
        let q2 = Qibla::new(mk(c.elev2.0));
        let got = q.degrees();
        let want = oq::qibla(lat, lon);
        let mut diff = (got - want).abs() % 360.0;
        if diff > 180.0 {
            diff = 360.0 - diff;
        }
        st.max("bearing_error_deg", diff);
        if !(diff <= 1e-6) {
            return Err(Failure::new(
                "qibla-bearing",
                format!("{:.9} deg CCW of north (vector oracle), within 1e-6", want),
                format!("{:.9}", got),
            ));
        }
        // (-180,180], literally: -180.0 is the same direction as 180 but it is outside the stated interval (and carries the
        // label CW where the statement's convention gives CCW); the original returned it on the Kaaba's antimeridian
        // south of the antipode (D13)
        if !(got > -180.0 && got <= 180.0) {
            return Err(Failure::new("qibla-range", "degrees in (-180,180]", format!("{}", got)));
        }
        if got == 180.0 {
            st.class("exactly_180_due_south");
        }
        if q2.degrees().to_bits() != got.to_bits() {
            return Err(Failure::new(
                "qibla-elevation-dependence",
                format!("{} at any elevation", got),
                format!("{} at elevation {} vs {} at {}", got, c.elev.0, q2.degrees(), c.elev2.0),
            ));
        }
        let rot = q.rotation();
        let want_rot = if got < 0.0 { Rotation::Cw } else { Rotation::Ccw };
        // a bearing of exactly 0 (due north) has no sign: either label is accepted there
        let signless = got == 0.0;
        if signless {
            st.class("bearing_exactly_zero_label_not_checked");
        }
        if rot != want_rot && !signless {
            return Err(Failure::new("qibla-rotation", format!("{:?} for {}", want_rot, got), format!("{:?}", rot)));
        }
        // the oracle's own sign must agree as well whenever it is not within tolerance of 0 or 180
        if want.abs() > 1e-5 && (180.0 - want.abs()) > 1e-5 {
            let o_rot = if want < 0.0 { Rotation::Cw } else { Rotation::Ccw };
            if rot != o_rot {
                return Err(Failure::new("qibla-rotation-vs-oracle", format!("{:?}", o_rot), format!("{:?}", rot)));
            }
        }
        // printed text agrees with sign and magnitude (no exact format imposed: the first number in the text must be
        // |degrees| to the printed precision, and the rotation label must match the sign)
        let text = q.to_string();
        let numtxt: String = text.chars().skip_while(|ch| !ch.is_ascii_digit()).take_while(|ch| ch.is_ascii_digit() || *ch == '.').collect();
        match numtxt.parse::<f64>() {
            Ok(num) => {
                let decimals = numtxt.split('.').nth(1).map_or(0, |d| d.len()) as i32;
                let half_unit = 0.5 * 10f64.powi(-decimals);
                if (num - got.abs()).abs() > half_unit + 1e-9 || (num - want.abs()).abs() > half_unit + 1e-6 {
                    return Err(Failure::new("qibla-display-magnitude", format!("{} printed to {} decimals", got.abs(), decimals), text));
                }
            }
            Err(_) => return Err(Failure::new("qibla-display-format", "a text containing the magnitude in degrees", text)),
        }
        let says_ccw = text.contains("CCW");
        let says_cw = text.contains("CW") && !says_ccw;
        if !signless && ((got < 0.0 && !says_cw) || (got >= 0.0 && !says_ccw)) {
            return Err(Failure::new("qibla-display-label", format!("label {} for {}", if got < 0.0 { "CW" } else { "CCW" }, got), text));
        }
        st.nontrivial(c);
        let dl = crate::oracle::ephem::norm180(lon - oq::KAABA_LON);
        st.class(match (lat >= oq::KAABA_LAT, dl >= 0.0) {
            (true, true) => "north_east_of_mecca",
            (true, false) => "north_west_of_mecca",
            (false, true) => "south_east_of_mecca",
            (false, false) => "south_west_of_mecca",
        });
        if lat < 0.0 {
            st.class("southern_hemisphere");
        }
        if lon.abs() > 179.0 {
            st.class("date_line_within_1deg");
        }
        if dl.abs() < 0.5 {
            st.class("kaaba_meridian_within_0.5deg");
        }
        if dl.abs() > 179.5 {
            st.class("kaaba_antimeridian_within_0.5deg");
        }
        if d < 0.3 || d > 179.7 {
            st.class("within_0.3deg_of_kaaba_or_antipode_(outside_the_exemption)");
        }
        if (want.abs() - 90.0).abs() < 1e-3 {
            st.class("bearing_within_1e-3deg_of_due_east_or_west");
        }
        if st.want_sample() {
            st.sample(json!({"case": c, "library_deg": got, "oracle_deg": want, "text": text}));
        }
        Ok(())
    }
    fn rule(&self) -> String {
        "generated (lat, lon, two elevations) from a mixture: uniform, Kaaba meridian and antimeridian +-0.5 deg, date line, near the Kaaba, near the poles, a ring 0.1-0.3 deg around the Kaaba and its antipode, and points within 1e-9..1e-3 deg of the curve where the bearing is exactly due east/west (constructed by bisecting the oracle); points within 0.1 deg of the Kaaba/antipode are constructed out. Every case outside that exemption is non-trivial; distinct = distinct hash of (lat, lon, elevations) Every query is preceded by a sibling query (a fraction of a microdegree or 40 degrees away) on the same thread.".into()
    }
    fn assumptions(&self) -> Vec<String> {
        vec![
            "oracle: initial great-circle bearing from unit vectors and the local north/east basis; Kaaba at 21.423333 N 39.823333 E; spherical Earth as in the statement".into(),
            "circular comparison of bearings (so -180 and 180 agree)".into(),
        ]
    }
    fn tolerances(&self) -> serde_json::Value {
        json!({"bearing_error_deg": 1e-6})
    }
}
