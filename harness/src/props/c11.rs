//! C11 Rounding follows the selected policy exactly.
//!
//! Engine 1 enumerates every second of the day for every mode x prayer through the
//! feature-gated `hour_to_time` hook; engine 2 compares each mode with RoundSeconds::None end to end.

use chrono::{NaiveDate, Timelike};
use islamic_prayer_times::{verif_hooks, Prayer};
use proptest::prelude::*;
use serde::{Deserialize, Serialize};
use serde_json::json;

use super::c07::minutes_opt;
use super::common::*;
use crate::engine::{catch, chunk, mix, Failure, Prop, Stats, Tier, F};
use crate::gen::{self, circ_diff, ParamSpec, Site, PRAYERS};
use crate::oracle::rounding::{round, Mode};

pub struct C11;

#[derive(Clone, Debug, Hash, PartialEq, Eq, Serialize, Deserialize)]
pub enum Case {
    /// direct call of the hour -> time conversion
    Hook {
        mode: u8,
        /// index into PRAYERS, 1..=6 (Imsaak is never passed as a key by the public API: it is converted under the Fajr key)
        prayer: u8,
        second: u32,
        /// fraction of a second in [0.02, 0.98]
        frac: F,
        /// whole days added to the hour value (-3..=3): negative and >= 24 h intermediate hours, several wraps away
        wrap: i8,
        /// minute offset configured for the prayer; the hour passed is pre-compensated so that the unrounded time is `second`
        offset: F,
    },
    /// end to end through prayer_times_dt
    EndToEnd { site: Site, spec: ParamSpec, date: NaiveDate },
    /// an hour value within a few ulps of a multiple of 24 (the wrap of the conversion): `ulps` steps away from
    /// `24 * wrap`, offset 0. Either side of the wrap is acceptable; what is asserted is a valid time within a
    /// minute of midnight and no panic.
    WrapEdge { mode: u8, prayer: u8, wrap: i8, ulps: i8 },
    /// an hour value within a few ulps of minute + 30 s (kind 0) or minute + 1 s (kind 1), i.e. at a rounding threshold
    /// itself (some of these make the library's seconds exactly 30.0 / 1.0). The unrounded h:m:s is what the conversion
    /// itself reports under RoundSeconds::None for the same hour value; the rounded result must follow from it.
    ///
    /// `kind` >= 2 widens this to the other places where the truncated second changes: 2 = the whole minute itself
    /// (hour values a few ulps below it read hh:mm-1:59 unrounded), 3 = minute + 59 s, 4 = minute + 29 s, 5 = minute + 31 s,
    /// 6 = minute + 2 s; `wrap` adds whole days to the hour value (coarser ulps, negative intermediate hours).
    Threshold {
        mode: u8,
        prayer: u8,
        minute: u16,
        kind: u8,
        ulps: i8,
        #[serde(default)]
        wrap: i8,
    },
}

const THRESHOLD_SECS: [f64; 7] = [30.0, 1.0, 0.0, 59.0, 29.0, 31.0, 2.0];

/// Hook case next to a whole second: the rounded result must follow from what the conversion itself reports unrounded.
fn threshold_eval(mode: u8, prayer: u8, minute: u16, kind: u8, ulps: i8, wrap: i8, st: &mut Stats) -> Result<(), Failure> {
    st.eval();
    let pr = PRAYERS[prayer as usize];
    let secs_thr = THRESHOLD_SECS[kind as usize % THRESHOLD_SECS.len()];
    let h0 = (minute as f64 + secs_thr / 60.0) / 60.0 + 24.0 * wrap as f64;
    let hour = if h0 == 0.0 {
        ulps as f64 * 8.9e-16
    } else if h0 > 0.0 {
        f64::from_bits((h0.to_bits() as i64 + ulps as i64) as u64)
    } else {
        f64::from_bits((h0.to_bits() as i64 - ulps as i64) as u64)
    };
    let conv = |m: u8| {
        let mut spec = ParamSpec::plain(5);
        spec.rounding = m;
        let params = spec.build();
        catch(|| verif_hooks::hour_to_time(&params, pr, hour))
    };
    let (Ok(base), Ok(got)) = (conv(0), conv(mode)) else {
        return Err(Failure::new("rounding:hook:panic:threshold", "a clock time", format!("panic for hour value {:?}", hour)));
    };
    let want = round(MODES[mode as usize], prayer as usize, base.hour(), base.minute(), base.second());
    let g = (got.hour(), got.minute(), got.second());
    if g != want {
        return Err(Failure::new(
            format!("rounding:hook:threshold:{}:{}", gen::ROUNDING_NAMES[mode as usize], gen::PRAYER_NAMES[prayer as usize]),
            format!("{:02}:{:02}:{:02} under {} rounding (the conversion itself reports {} unrounded for this hour value)", want.0, want.1, want.2, gen::ROUNDING_NAMES[mode as usize], base),
            format!("{} (hour value {:?})", got, hour),
        ));
    }
    // the unrounded reading itself must be one of the two seconds next to the boundary
    let target = (minute as i64 * 60 + secs_thr as i64).rem_euclid(86400);
    let d = circ_diff(gen::secs(base), target);
    if !(-1..=0).contains(&d) {
        return Err(Failure::new(
            "rounding:hook:threshold:unrounded-reading",
            format!("the second before or at {:02}:{:02}:{:02} for an hour value {} ulps from it", target / 3600, (target / 60) % 60, target % 60, ulps),
            format!("{} (hour value {:?})", base, hour),
        ));
    }
    if kind >= 2 {
        st.class(if d == 0 { "hook_second_boundary_case_on_the_upper_side" } else { "hook_second_boundary_case_on_the_lower_side" });
        if kind == 2 && d == -1 {
            st.class("hook_just_below_a_whole_minute");
        }
    } else if base.second() == 30 || base.second() == 1 {
        st.class("hook_threshold_case_on_the_upper_side");
    } else {
        st.class("hook_threshold_case_on_the_lower_side");
    }
    if wrap != 0 {
        st.class("hook_threshold_case_days_away");
    }
    Ok(())
}

const MODES: [Mode; 4] = [Mode::None, Mode::Normal, Mode::Special, Mode::Aggressive];
const OFFSETS: [f64; 8] = [0.0, 1.0, -1.0, 59.0, -59.0, 1439.0, -1439.0, 0.0];

fn hook_eval(mode: u8, prayer: u8, second: u32, frac: f64, wrap: i8, offset: f64, st: &mut Stats) -> Result<(), Failure> {
    st.eval();
    let mut spec = ParamSpec::plain(5);
    spec.rounding = mode;
    let mut params = spec.build();
    let pr = PRAYERS[prayer as usize];
    params.minutes.insert(pr, offset);
    let hour = (second as f64 + frac) / 3600.0 + 24.0 * wrap as f64 - offset / 60.0;
    let got = match catch(|| verif_hooks::hour_to_time(&params, pr, hour)) {
        Ok(g) => g,
        Err(p) => {
            return Err(Failure::new(
                format!("rounding:hook:panic:{}", gen::ROUNDING_NAMES[mode as usize]),
                "a clock time",
                format!("{} (hour value {}, offset {} min, prayer {})", p, hour, offset, gen::PRAYER_NAMES[prayer as usize]),
            ))
        }
    };
    let (h, m, s) = (second / 3600, (second / 60) % 60, second % 60);
    let want = round(MODES[mode as usize], prayer as usize, h, m, s);
    let g = (got.hour(), got.minute(), got.second());
    if g != want {
        return Err(Failure::new(
            format!("rounding:hook:{}:{}", gen::ROUNDING_NAMES[mode as usize], gen::PRAYER_NAMES[prayer as usize]),
            format!(
                "{:02}:{:02}:{:02} under {} rounding for {} (unrounded {:02}:{:02}:{:02}.{:03})",
                want.0,
                want.1,
                want.2,
                gen::ROUNDING_NAMES[mode as usize],
                gen::PRAYER_NAMES[prayer as usize],
                h,
                m,
                s,
                (frac * 1000.0) as u32
            ),
            format!("{:02}:{:02}:{:02} (hour value {}, offset {} min)", g.0, g.1, g.2, hour, offset),
        ));
    }
    if s == 29 || s == 30 || s == 59 {
        st.class("hook_s_29_30_59");
    }
    if s <= 1 {
        st.class("hook_s_0_1");
    }
    if m == 59 && want.1 == 0 && mode != 0 {
        st.class("hook_hour_carry");
    }
    if h == 23 && m == 59 && want.0 == 0 {
        st.class("hook_midnight_carry");
    }
    if hour < 0.0 {
        st.class("hook_negative_intermediate_hour");
    }
    if hour + offset / 60.0 >= 24.0 || hour >= 24.0 {
        st.class("hook_intermediate_hour_ge_24");
    }
    Ok(())
}

impl Prop for C11 {
    type Case = Case;
    fn id(&self) -> &'static str {
        "C11"
    }
    fn cases(&self, tier: Tier) -> u64 {
        tier.pick(200_000, 10_000_000)
    }
    fn strategy(&self, _tier: Tier) -> BoxedStrategy<Case> {
        let second = prop_oneof![
            4 => 0u32..86400,
            2 => (0u32..1440, prop_oneof![Just(0u32), Just(1), Just(29), Just(30), Just(59)]).prop_map(|(m, s)| m * 60 + s),
            1 => (0u32..24, 0u32..60).prop_map(|(h, s)| h * 3600 + 59 * 60 + s),
            1 => (0u32..60).prop_map(|s| 23 * 3600 + 59 * 60 + s),
        ];
        let hook = (
            0u8..4,
            1u8..7,
            second,
            0.02..=0.98f64,
            -3i8..=3,
            prop_oneof![2 => Just(0.0), 2 => -1500.0..=1500.0f64, 1 => (-1500..=1500i32).prop_map(|x| x as f64)],
        )
            .prop_map(|(mode, prayer, second, frac, wrap, offset)| Case::Hook { mode, prayer, second, frac: F(frac), wrap, offset: F(offset) });
        // any parameter set: the full product of C07 (angles, real-valued Fajr/Isha/Imsaak intervals, 7 offsets, schools,
        // all 15 policies) in half of the cases, a plain method with offsets in the other half
        let plain = (0u8..9, minutes_opt(1500.0), prop_oneof![Just(gen::P_NONE), Just(gen::P_NGD_FI_INV), Just(gen::P_7N_ALWAYS)]).prop_map(
            |(method, minutes, policy)| {
                let mut s = ParamSpec::plain(method);
                s.minutes = minutes;
                s.policy = policy;
                s
            },
        );
        let spec = prop_oneof![1 => plain, 1 => super::c07::full_spec()];
        let e2e = (gen::site(62.0, 6.0), spec, gen::date()).prop_map(|(site, spec, date)| Case::EndToEnd { site, spec, date });
        let edge = (0u8..4, 1u8..7, -2i8..=3, -6i8..=6).prop_map(|(mode, prayer, wrap, ulps)| Case::WrapEdge { mode, prayer, wrap, ulps });
        let thr = (1u8..4, 1u8..7, 0u16..1440, 0u8..7, -4i8..=4, prop_oneof![3 => Just(0i8), 1 => -3i8..=3])
            .prop_map(|(mode, prayer, minute, kind, ulps, wrap)| Case::Threshold { mode, prayer, minute, kind, ulps, wrap });
        prop_oneof![20 => hook, 30 => e2e, 1 => edge, 6 => thr].boxed()
    }
    fn check(&self, c: &Case, st: &mut Stats) -> Result<(), Failure> {
        match c {
            Case::Hook { mode, prayer, second, frac, wrap, offset } => {
                hook_eval(*mode, *prayer, *second, frac.0, *wrap, offset.0, st)?;
                if second % 60 != 0 {
                    st.nontrivial(c);
                }
                st.class("generated_hook_case");
                Ok(())
            }
            Case::WrapEdge { mode, prayer, wrap, ulps } => {
                st.eval();
                let mut spec = ParamSpec::plain(5);
                spec.rounding = *mode;
                let params = spec.build();
                let pr = PRAYERS[*prayer as usize];
                let base = 24.0 * *wrap as f64;
                // step `ulps` representable values away from the multiple of 24 (around 0 the neighbours are +-tiny)
                let hour = if base == 0.0 {
                    *ulps as f64 * 8.9e-16
                } else {
                    f64::from_bits((base.to_bits() as i64 + if base > 0.0 { *ulps as i64 } else { -(*ulps as i64) }) as u64)
                };
                let got = match catch(|| verif_hooks::hour_to_time(&params, pr, hour)) {
                    Ok(g) => g,
                    Err(p) => {
                        return Err(Failure::new(
                            format!("rounding:hook:panic:{}", gen::ROUNDING_NAMES[*mode as usize]),
                            "a clock time for an hour value next to a multiple of 24",
                            format!("{} (hour value {:e} = 24*{} {:+} ulps, prayer {})", p, hour, wrap, ulps, gen::PRAYER_NAMES[*prayer as usize]),
                        ))
                    }
                };
                let d = circ_diff(gen::secs(got), 0).abs();
                if d > 60 {
                    return Err(Failure::new(
                        "rounding:hook:wrap-edge",
                        "a time within a minute of midnight for an hour value next to a multiple of 24",
                        format!("{} for hour value {:e}", got, hour),
                    ));
                }
                st.nontrivial(c);
                st.class("hook_wrap_edge_case");
                Ok(())
            }
            Case::Threshold { mode, prayer, minute, kind, ulps, wrap } => {
                threshold_eval(*mode, *prayer, *minute, *kind, *ulps, *wrap, st)?;
                st.nontrivial(c);
                Ok(())
            }
            Case::EndToEnd { site, spec, date } => {
                let mut s0 = spec.clone();
                s0.rounding = 0;
                let base = compute(site, &s0, *date, None);
                if !has_all_keys(&base) {
                    return Err(Failure::new("missing-entries", "7 entries", gen::fmt_times(&base)));
                }
                let mut nontrivial = false;
                for mode in 1u8..4 {
                    let mut s1 = spec.clone();
                    s1.rounding = mode;
                    let r = compute(site, &s1, *date, None);
                    for (i, p) in PRAYERS.iter().enumerate() {
                        st.eval();
                        match (base[p], r.get(p).copied()) {
                            (Ok(b), Some(Ok(x))) => {
                                if b.extreme != x.extreme {
                                    return Err(Failure::new(
                                        format!("rounding:e2e:flag-changed:{}", gen::PRAYER_NAMES[i]),
                                        "extreme flag unaffected by rounding",
                                        format!("none: {} | {}: {}", gen::fmt_times(&base), gen::ROUNDING_NAMES[mode as usize], gen::fmt_times(&r)),
                                    ));
                                }
                                let (h, m, s) = (b.time.hour(), b.time.minute(), b.time.second());
                                let want = round(MODES[mode as usize], i, h, m, s);
                                let g = (x.time.hour(), x.time.minute(), x.time.second());
                                if g != want {
                                    return Err(Failure::new(
                                        format!("rounding:e2e:{}:{}", gen::ROUNDING_NAMES[mode as usize], gen::PRAYER_NAMES[i]),
                                        format!(
                                            "{} {:02}:{:02}:{:02} under {} rounding (unrounded {})",
                                            gen::PRAYER_NAMES[i],
                                            want.0,
                                            want.1,
                                            want.2,
                                            gen::ROUNDING_NAMES[mode as usize],
                                            b.time
                                        ),
                                        format!("{}", x.time),
                                    ));
                                }
                                let moved = circ_diff(gen::secs(x.time), gen::secs(b.time)).abs();
                                if moved >= 60 {
                                    return Err(Failure::new("rounding:e2e:moved-a-minute-or-more", "< 60 s", format!("{} s", moved)));
                                }
                                if s != 0 {
                                    nontrivial = true;
                                }
                                if *p == Prayer::Imsaak {
                                    st.class("e2e_imsaak_compared");
                                }
                                if m == 59 && want.1 == 0 {
                                    st.class("e2e_hour_carry");
                                }
                                if h == 23 && m == 59 && want.0 == 0 {
                                    st.class("e2e_midnight_carry");
                                }
                            }
                            (Err(()), Some(Err(()))) => {}
                            _ => {
                                return Err(Failure::new(
                                    format!("rounding:e2e:validity-changed:{}", gen::PRAYER_NAMES[i]),
                                    "validity unaffected by rounding",
                                    format!("none: {} | {}: {}", gen::fmt_times(&base), gen::ROUNDING_NAMES[mode as usize], gen::fmt_times(&r)),
                                ))
                            }
                        }
                    }
                }
                if nontrivial {
                    st.nontrivial(c);
                }
                st.class("generated_e2e_case");
                if st.want_sample() {
                    st.sample(json!({"case": c, "unrounded": gen::fmt_times(&base)}));
                }
                Ok(())
            }
        }
    }
    fn enumerate(&self, tier: Tier, shard: usize, nshards: usize, st: &mut Stats) -> Result<(), (Case, Failure)> {
        // every (mode, prayer key, second of the day); fraction/wrap/offset filled in deterministically per point and pass
        let passes = tier.pick(1u64, 5u64);
        let (lo, hi) = chunk(86400, shard, nshards);
        for pass in 0..passes {
            for second in lo..hi {
                for mode in 0u8..4 {
                    for prayer in 1u8..7 {
                        let h = mix(&[second, mode as u64, prayer as u64, pass]);
                        let frac = 0.02 + 0.96 * ((h >> 11) as f64 / (1u64 << 53) as f64);
                        let wrap = ((h % 7) as i8) - 3;
                        let oi = ((h >> 8) % 8) as usize;
                        let offset = if oi == 7 { ((h >> 16) % 3001) as f64 - 1500.0 } else { OFFSETS[oi] };
                        hook_eval(mode, prayer, second as u32, frac, wrap, offset, st).map_err(|f| {
                            (Case::Hook { mode, prayer, second: second as u32, frac: F(frac), wrap, offset: F(offset) }, f)
                        })?;
                        if pass == 0 && second % 60 != 0 {
                            st.nontrivial_enum(1);
                        }
                    }
                }
            }
        }
        // every whole minute of the day x rounding mode x {minute, +1 s, +29 s, +30 s, +31 s, +59 s, +2 s} x -4..=4 ulps
        // (x day wraps -1..=1 in the thorough tier), for one rounded-up prayer key and Shurooq
        let (mlo, mhi) = chunk(1440, shard, nshards);
        let wraps: &[i8] = if tier == Tier::Thorough { &[0, -1, 1, 2] } else { &[0] };
        for minute in mlo..mhi {
            for mode in 1u8..4 {
                for kind in 0u8..7 {
                    for ulps in -4i8..=4 {
                        for &wrap in wraps {
                            for prayer in [1u8, 2] {
                                threshold_eval(mode, prayer, minute as u16, kind, ulps, wrap, st)
                                    .map_err(|f| (Case::Threshold { mode, prayer, minute: minute as u16, kind, ulps, wrap }, f))?;
                                st.nontrivial_enum(1);
                            }
                        }
                    }
                }
            }
        }
        if shard == 0 {
            st.sample(json!({"enumerated": "mode x prayer key x second", "example": {"mode": "Normal", "prayer": "Fajr", "second": 43199, "expected": "12:00:00"}}));
        }
        Ok(())
    }
    fn exhaustive(&self, _tier: Tier) -> bool {
        true
    }
    fn rule(&self) -> String {
        "engine 1 (exhaustive over mode x prayer key x second of the day = 4 x 6 x 86,400 points per pass; quick 1 pass, thorough 5; sub-second fraction, +-24 h wrap and minute offset filled in per point from a fixed hash) through the hour_to_time hook; engine 2 generated end-to-end cases (site |lat|<=62; half with a plain method, 7 minute offsets in [-1500,1500] and policy None/default/seventh-of-night, half with the full parameter product of C07: angles, real-valued Fajr/Isha/Imsaak intervals, offsets, schools, all 15 policies) comparing modes Normal/Special/Aggressive with None for all 7 entries, plus generated hook cases with arbitrary offsets; and a second-boundary sweep through the hook: every whole minute of the day x mode x {+0, +1, +2, +29, +30, +31, +59 s} x -4..=4 ulps (x day wraps in the thorough tier), where the rounded result must follow from what the conversion itself reports unrounded for the same hour value (this sweep is what reports D11). Non-trivial = unrounded second != 0 (rounding had something to decide): enumerated points counted once (first pass), generated cases by hash. `exhaustive` refers to engine 1".into()
    }
    fn assumptions(&self) -> Vec<String> {
        vec![
            "the hook is called with the 6 prayer keys the public API uses (Imsaak is converted under the Fajr key by the library and is covered end to end)".into(),
            "enumerated hours keep >= 20 ms from second boundaries so that a 1-ulp difference between two float paths is not mistaken for a rounding-policy fact".into(),
            "the RoundSeconds::None output is the unrounded h:m:s (truncated second)".into(),
        ]
    }
}
