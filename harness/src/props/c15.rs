//! C15 Parallel range computation equals the sequential one under perturbed schedules.
//!
//! The OS scheduler is not owned; instead seeded delays/yields are injected at every
//! spawn/send/recv point through the verif-hooks feature, the worker count is overridden,
//! and every case is run under a termination watchdog.

use std::collections::BTreeMap;
use std::sync::atomic::{AtomicU32, AtomicU64, Ordering};
use std::sync::Mutex;
use std::time::Duration;

use chrono::NaiveDate;
use islamic_prayer_times::{prayer_times_dt, prayer_times_dt_rng, prayer_times_dt_rng_block, verif_hooks, DateRange};
use proptest::prelude::*;
use serde::{Deserialize, Serialize};
use serde_json::json;

use super::c14::setup;
use crate::engine::{catch, mix, Failure, Prop, Stats, Tier};
use crate::gen::{self, Times};

pub struct C15;

#[derive(Clone, Debug, Hash, PartialEq, Eq, Serialize, Deserialize)]
pub struct Case {
    pub workers: u32,
    pub days: u32,
    pub threshold: u32,
    pub plan_seed: u64,
    /// index into the (site, params) setups shared with C14 and into the start dates
    pub setup: u8,
    /// one long stall (seconds, not milliseconds) at one schedule point: Some((point index into POINTS, worker/visit
    /// index, milliseconds)). Timeouts in channel code are measured in seconds; micro-delays never reach them.
    #[serde(default)]
    pub stall: Option<(u8, u16, u32)>,
}

const POINTS: [&str; 9] =
    ["collector_start", "after_recv", "collector_end", "before_spawn", "worker_start", "before_send", "after_send", "before_drop_tx", "before_join"];

const STARTS: [(i32, u32, u32); 4] = [(2023, 1, 1), (2019, 12, 25), (1999, 6, 1), (2096, 2, 20)];

static PLAN_SEED: AtomicU64 = AtomicU64::new(0);
static VISITS: [AtomicU32; 64] = [const { AtomicU32::new(0) }; 64];
static COLLECTOR_STARTS: AtomicU32 = AtomicU32::new(0);
static WORKER_STARTS: AtomicU32 = AtomicU32::new(0);
static DELAYS: AtomicU32 = AtomicU32::new(0);
static STALL_CODE: AtomicU64 = AtomicU64::new(0);
static STALL_IDX: AtomicU32 = AtomicU32::new(0);
static STALL_MS: AtomicU32 = AtomicU32::new(0);

fn name_code(name: &str) -> u64 {
    name.bytes().fold(1469598103934665603u64, |h, b| (h ^ b as u64).wrapping_mul(1099511628211))
}

fn sched_hook(name: &'static str, idx: usize) {
    if name == "collector_start" {
        COLLECTOR_STARTS.fetch_add(1, Ordering::SeqCst);
    }
    if name == "worker_start" {
        WORKER_STARTS.fetch_add(1, Ordering::SeqCst);
    }
    let code = name_code(name);
    if STALL_MS.load(Ordering::SeqCst) > 0 && STALL_CODE.load(Ordering::SeqCst) == code && STALL_IDX.load(Ordering::SeqCst) as usize == idx {
        let ms = STALL_MS.swap(0, Ordering::SeqCst);
        if ms > 0 {
            std::thread::sleep(Duration::from_millis(ms as u64));
        }
    }
    let slot = (mix(&[code, idx as u64]) % 64) as usize;
    let visit = VISITS[slot].fetch_add(1, Ordering::SeqCst);
    let seed = PLAN_SEED.load(Ordering::SeqCst);
    let h = mix(&[seed, code, idx as u64, visit as u64]);
    match h % 16 {
        0..=5 => {}
        6..=9 => std::thread::yield_now(),
        10..=14 => {
            DELAYS.fetch_add(1, Ordering::Relaxed);
            std::thread::sleep(Duration::from_micros(20 + (h >> 8) % 300));
        }
        _ => {
            DELAYS.fetch_add(1, Ordering::Relaxed);
            std::thread::sleep(Duration::from_micros(300 + (h >> 8) % 2700));
        }
    }
}

type DayCache = Mutex<BTreeMap<(u8, NaiveDate), Times>>;
static CACHE: DayCache = Mutex::new(BTreeMap::new());

impl Prop for C15 {
    type Case = Case;
    fn id(&self) -> &'static str {
        "C15"
    }
    fn cases(&self, tier: Tier) -> u64 {
        tier.pick(8_000, 200_000)
    }
    fn shards(&self) -> usize {
        1
    }
    fn processes(&self) -> usize {
        8
    }
    fn watchdog(&self) -> Option<Duration> {
        Some(Duration::from_secs(150))
    }
    fn hang_is_violation(&self) -> bool {
        true
    }
    fn max_shrink_iters(&self) -> u32 {
        150
    }
    fn strategy(&self, _tier: Tier) -> BoxedStrategy<Case> {
        let workers = prop_oneof![
            2 => 1u32..=64,
            3 => prop_oneof![Just(1u32), Just(2), Just(3), Just(15), Just(16), Just(17), Just(64)],
            2 => 2u32..=20,
        ];
        let stall = prop_oneof![
            1999 => Just(None),
            1 => (0u8..9, 0u16..4, 5200u32..=7000).prop_map(Some),
        ];
        (workers, 0u8..12, 0.0..1.0f64, 0u8..8, 0u32..=400, any::<u64>(), 0u8..24, stall)
            .prop_map(|(workers, dkind, u, tkind, traw, plan_seed, setup, stall)| {
                let w = workers as i64;
                let days: i64 = match dkind {
                    0 => 0,
                    1 => 1,
                    2 => w - 1,
                    3 => w,
                    4 => w + 1,
                    5 => (365 * w + 1).min(6000),
                    6 => (365 * w - 1).min(6000),
                    7 | 8 | 9 => (u * 300.0) as i64,
                    10 => (u * 1500.0) as i64,
                    _ => (u * u * 6000.0) as i64,
                };
                let days = days.clamp(0, 6000) as u32;
                let per = days / workers;
                let threshold = match tkind {
                    0 | 1 => 0,
                    2 => 1,
                    3 => per,                 // boundary: still parallel
                    4 => per + 1,             // just above: sequential
                    5 => per / 2,
                    _ => traw,
                }
                .min(400);
                Case { workers, days, threshold, plan_seed, setup, stall }
            })
            .boxed()
    }
    fn check(&self, c: &Case, st: &mut Stats) -> Result<(), Failure> {
        st.eval();
        let (site, spec) = setup(c.setup % 6);
        let params = spec.build();
        let loc = site.location();
        let (y, m, d) = STARTS[(c.setup / 6) as usize % 4];
        let start = gen::ymd(y, m, d);
        let end = start + chrono::Duration::days(c.days as i64 - 1);
        let range = DateRange::from(start..=end);
        // reference: the per-day results for exactly the days of the range (cached), which C14 shows to be the
        // sequential range API; for short ranges the sequential API itself is called as well
        let mut want = BTreeMap::new();
        {
            let mut cache = CACHE.lock().unwrap();
            let mut day = start;
            for _ in 0..c.days {
                let v = cache.entry((c.setup % 6, day)).or_insert_with(|| prayer_times_dt(&params, loc, day, None)).clone();
                want.insert(day, v);
                day = day + chrono::Duration::days(1);
            }
        }
        if c.days <= 400 {
            let seq = prayer_times_dt_rng(&params, loc, &range);
            if seq != want {
                return Err(Failure::new("sequential-api-differs-from-per-day", "sequential range API = per-day results (C14)", format!("{} vs {} entries", seq.len(), want.len())));
            }
            st.class("sequential_api_called_literally");
        }
        // perturbed parallel run
        PLAN_SEED.store(c.plan_seed, Ordering::SeqCst);
        for v in VISITS.iter() {
            v.store(0, Ordering::SeqCst);
        }
        COLLECTOR_STARTS.store(0, Ordering::SeqCst);
        WORKER_STARTS.store(0, Ordering::SeqCst);
        DELAYS.store(0, Ordering::SeqCst);
        match c.stall {
            Some((p, idx, ms)) => {
                STALL_CODE.store(name_code(POINTS[p as usize % POINTS.len()]), Ordering::SeqCst);
                STALL_IDX.store(idx as u32, Ordering::SeqCst);
                STALL_MS.store(ms.min(70_000), Ordering::SeqCst);
                st.class("case_with_a_multi_second_stall");
            }
            None => STALL_MS.store(0, Ordering::SeqCst),
        }
        verif_hooks::set_parallelism(Some(c.workers as usize));
        verif_hooks::set_sched_hook(Some(sched_hook));
        let got = catch(|| prayer_times_dt_rng_block(&params, loc, &range, c.threshold as usize));
        verif_hooks::set_sched_hook(None);
        verif_hooks::set_parallelism(None);
        let got = match got {
            Ok(g) => g,
            Err(p) => return Err(Failure::new(format!("parallel-api-panic:{}", p), "no panic", p)),
        };
        let parallel = COLLECTOR_STARTS.load(Ordering::SeqCst) > 0;
        let nworkers = WORKER_STARTS.load(Ordering::SeqCst);
        if got != want {
            let missing: Vec<_> = want.keys().filter(|k| !got.contains_key(k)).take(3).collect();
            let extra: Vec<_> = got.keys().filter(|k| !want.contains_key(k)).take(3).collect();
            let differing: Vec<_> = want.iter().filter(|(k, v)| got.get(k).map_or(false, |g| g != *v)).map(|(k, _)| k).take(3).collect();
            return Err(Failure::new(
                if got.len() < want.len() { "parallel-differs:entries-lost" } else if got.len() > want.len() { "parallel-differs:extra-entries" } else { "parallel-differs:values" },
                format!("the sequential map ({} entries, {}..={})", want.len(), start, end),
                format!(
                    "{} entries; missing e.g. {:?}; extra e.g. {:?}; differing e.g. {:?}; parallel branch taken: {}, workers started: {}",
                    got.len(),
                    missing,
                    extra,
                    differing,
                    parallel,
                    nworkers
                ),
            ));
        }
        let expect_parallel = c.workers > 1 && (c.days / c.workers) >= c.threshold;
        if parallel {
            st.class("parallel_branch_taken");
            if nworkers >= 2 {
                st.nontrivial(c);
                st.class("parallel_with_2_or_more_partitions");
            }
            if c.days < c.workers {
                st.class("fewer_days_than_workers");
            }
            if c.days % c.workers != 0 {
                st.class("days_not_divisible_by_workers");
            }
            if c.workers > 16 {
                st.class("more_workers_than_16");
            }
            st.class_n("injected_sleeps", DELAYS.load(Ordering::SeqCst) as u64);
            st.max("workers_started", nworkers as f64);
        } else {
            st.class("sequential_branch");
        }
        if expect_parallel != parallel {
            st.class("branch_decision_differs_from_documented_rule");
        }
        if c.days == 0 {
            st.class("empty_range");
        }
        if st.want_sample() {
            st.sample(json!({"case": c, "start": start.to_string(), "entries": got.len(), "parallel": parallel, "workers_started": nworkers}));
        }
        Ok(())
    }
    fn enumerate(&self, tier: Tier, _shard: usize, _nshards: usize, st: &mut Stats) -> Result<(), (Case, Failure)> {
        // fixed long-stall scenarios: 4 workers, 400 days, threshold 0, a 6.5 s stall at one schedule point.
        // Each of the 8 processes runs one of them (all of them when the run is not split over processes).
        let scenarios: [(u8, u16); 8] = [(5, 0), (3, 2), (1, 0), (4, 1), (0, 0), (7, 4), (6, 0), (8, 4)];
        let mine: Vec<usize> = match std::env::var("VERIF_CHILD").ok().and_then(|v| v.split('/').next().and_then(|k| k.parse::<usize>().ok())) {
            Some(k) => vec![k % scenarios.len()],
            None => (0..scenarios.len()).collect(),
        };
        for i in mine {
            let (p, idx) = scenarios[i];
            // timeouts in such code are typically 1, 5, 10, 30 or 60 s: one scenario stalls 12.5 s in the quick tier,
            // two stall 35 s and 65 s in the thorough tier, the others 6.5 s
            let ms = match (tier, i) {
                (Tier::Quick, 0) => 12_500,
                (Tier::Thorough, 0) => 65_000,
                (Tier::Thorough, 1) => 35_000,
                _ => 6_500,
            };
            let c = Case { workers: 4, days: 400, threshold: 0, plan_seed: 0x5741_4c4c + i as u64, setup: 1, stall: Some((p, idx, ms)) };
            crate::engine::guarded(&c, || self.check(&c, st))?;
            st.nontrivial_enum(1);
        }
        Ok(())
    }
    fn rule(&self) -> String {
        "generated (workers 1..64 with mass at 1,2,3,15,16,17,64; days 0..6000 with mass at 0,1,workers-1,workers,workers+1,365*workers+-1; threshold 0..400 with mass at 0,1 and at the parallel/sequential boundary days/workers; 64-bit delay-plan seed; one of 24 (site, params, start date) setups). Every run installs a schedule hook that, at each of 10 named points (collector start, after each recv, before each spawn, worker start, before/after send, before drop(tx), before join), does nothing / yields / sleeps 20 us - 3 ms as a pure function of (plan seed, point, index, visit). One case in 2,000 additionally stalls one point for 5.2-7 s, and 8 fixed scenarios (one per process) stall each kind of point for 6.5 s (one of them 12.5 s; in the thorough tier two of them 35 s and 65 s). Non-trivial = the parallel branch was really taken (observed through the hook) with >= 2 partitions; distinct by hash of the case".into()
    }
    fn assumptions(&self) -> Vec<String> {
        vec![
            "interleavings are perturbed, not enumerated: the realised schedule is not reproducible, the saved case (incl. its delay plan) is the reproducible unit; absence of schedule-dependent failures is not proved".into(),
            "reference = per-day results for exactly the days of the range (shown equal to the sequential range API by C14, and compared with it literally for ranges up to 400 days)".into(),
            "injected stalls are at most 12.5 s in the quick tier and 65 s in the thorough tier: a longer timeout in the code under test is not reached; termination: a run exceeding 150 s (normal < 0.5 s) is a hang only if the saved case exceeds the bound again in a fresh process".into(),
            "within a process cases run one at a time (the hooks are process-global); the run is split over 8 processes with different seeds".into(),
        ]
    }
}
