//! C14 Range results are the per-day results for exactly the days in the range.

use std::time::Duration;

use chrono::NaiveDate;
use islamic_prayer_times::{prayer_times_dt, prayer_times_dt_rng, DateRange};
use proptest::prelude::*;
use serde::{Deserialize, Serialize};
use serde_json::json;

use crate::engine::{catch, chunk, guarded, Failure, Prop, Stats, Tier, F};
use crate::gen::{self, ParamSpec, Site};

pub struct C14;

#[derive(Clone, Debug, Hash, PartialEq, Eq, Serialize, Deserialize)]
pub struct Case {
    pub start: NaiveDate,
    /// end = start + len - 1 days (len <= 0 gives an empty / reversed range)
    pub len: i64,
    /// number of parts requested from partition()
    pub k: u32,
    /// index into a small set of (site, params)
    pub setup: u8,
    /// also run the range API (costly for long ranges) - always true for generated cases
    pub run_range_api: bool,
}

pub const SETUPS: [(f64, f64, f64, u8, u8); 8] = [
    // lat, lon, gmt, method, policy
    (39.0, -77.0, -5.0, 5, gen::P_NGD_FI_INV),
    (-33.9, 151.2, 10.0, 6, gen::P_NONE),
    (58.3, -134.4, -9.0, 5, gen::P_7N_INV),
    (21.4, 39.8, 3.0, 7, gen::P_NONE),
    (-54.9, -67.6, -3.0, 6, gen::P_ANGLE),
    (0.0, 0.0, 0.0, 0, gen::P_NONE),
    // policies that carry data (substitute latitude 48.5): the range route must treat them like the single-date route
    (47.5, 8.5, 1.0, 6, gen::P_NL_FI_ALWAYS),
    (60.2, 25.0, 2.0, 3, gen::P_NL_ALL),
];

pub fn setup(i: u8) -> (Site, ParamSpec) {
    let (lat, lon, gmt, method, policy) = SETUPS[i as usize % SETUPS.len()];
    let mut s = ParamSpec::plain(method);
    s.policy = policy;
    s.rounding = (i % 4) as u8;
    (Site { lat: F(lat), lon: F(lon), elev: F(0.0), gmt: F(gmt) }, s)
}

fn check_case(c: &Case, st: &mut Stats) -> Result<(), Failure> {
    st.eval();
    let end = c.start + chrono::Duration::days(c.len - 1);
    let range = DateRange::from(c.start..=end);
    let want_n = c.len.max(0) as usize;
    // 1. num_days
    let n = range.num_days();
    if n != want_n {
        return Err(Failure::new(
            if c.len <= 0 { "num-days:empty-or-reversed-range" } else { "num-days" },
            format!("num_days() = {} for {}..={}", want_n, c.start, end),
            format!("{}", n),
        ));
    }
    // 2. partition
    let parts = match catch(|| range.partition(c.k as usize)) {
        Ok(p) => p,
        Err(p) => return Err(Failure::new(format!("partition-panic:{}", p), "no panic", p)),
    };
    let kmax = (c.k as usize).max(1);
    let desc = || {
        format!(
            "partition({}) of {}..={} -> [{}]",
            c.k,
            c.start,
            end,
            parts.iter().map(|p| format!("{}..={}", p.start_date(), p.end_date())).collect::<Vec<_>>().join(", ")
        )
    };
    if parts.len() > kmax {
        return Err(Failure::new("partition:too-many-parts", format!("at most {} parts", kmax), desc()));
    }
    if want_n == 0 {
        for p in &parts {
            if p.num_days() != 0 {
                return Err(Failure::new("partition:empty-range-nonempty-part", "only empty parts for an empty range", desc()));
            }
        }
    } else {
        if parts.is_empty() {
            return Err(Failure::new("partition:no-parts", "union of parts is the range", desc()));
        }
        let mut expect_start = c.start;
        for p in &parts {
            if *p.start_date() != expect_start {
                return Err(Failure::new(
                    "partition:not-contiguous",
                    format!("a part starting on {} (contiguous, non-overlapping, in order)", expect_start),
                    desc(),
                ));
            }
            if p.end_date() < p.start_date() {
                return Err(Failure::new("partition:empty-part", "every part non-empty", desc()));
            }
            if *p.end_date() > end {
                return Err(Failure::new("partition:beyond-end", "parts inside the range", desc()));
            }
            expect_start = *p.end_date() + chrono::Duration::days(1);
        }
        if expect_start != end + chrono::Duration::days(1) {
            return Err(Failure::new("partition:does-not-reach-end", format!("last part ends on {}", end), desc()));
        }
        let total: usize = parts.iter().map(|p| p.num_days()).sum();
        if total != want_n {
            return Err(Failure::new("partition:day-count", format!("{} days in total", want_n), desc()));
        }
    }
    // 3. the range API
    if c.run_range_api {
        let (site, spec) = setup(c.setup);
        let params = spec.build();
        let loc = site.location();
        let map = match catch(|| prayer_times_dt_rng(&params, loc, &range)) {
            Ok(m) => m,
            Err(p) => return Err(Failure::new(format!("range-api-panic:{}", p), "no panic", p)),
        };
        if map.len() != want_n {
            return Err(Failure::new(
                "range-api:entry-count",
                format!("{} entries for {}..={}", want_n, c.start, end),
                format!("{} entries (first {:?}, last {:?})", map.len(), map.keys().next(), map.keys().next_back()),
            ));
        }
        let full = want_n <= 400;
        let mut d = c.start;
        for (i, (key, val)) in map.iter().enumerate() {
            if *key != d {
                return Err(Failure::new("range-api:wrong-dates", format!("entry {} is {}", i, d), format!("{}", key)));
            }
            if full || i == 0 || i + 1 == want_n || i % (want_n / 14 + 1) == 0 {
                let single = prayer_times_dt(&params, loc, d, None);
                if *val != single {
                    return Err(Failure::new(
                        "range-api:value-differs-from-single-date-api",
                        format!("{}: {}", d, gen::fmt_times(&single)),
                        gen::fmt_times(val),
                    ));
                }
            }
            d = d + chrono::Duration::days(1);
        }
        st.class("range_api_compared");
        // 4. the block (parallel) range API is a range API too: same entries for every threshold, also for empty and
        //    reversed ranges (the machine's real parallelism is used; C15 owns the schedule perturbation)
        if (c.k + c.setup as u32) % 3 == 0 && want_n <= 800 {
            let thr = [0usize, 1, 7, 365][(c.k as usize / 3) % 4];
            let blk = match catch(|| islamic_prayer_times::prayer_times_dt_rng_block(&params, loc, &range, thr)) {
                Ok(m) => m,
                Err(p) => return Err(Failure::new(format!("block-range-api-panic:{}", p), "no panic", format!("{} (threshold {})", p, thr))),
            };
            if blk != map {
                return Err(Failure::new(
                    "block-range-api:differs-from-range-api",
                    format!("{} entries equal to the sequential range API (threshold {})", want_n, thr),
                    format!("{} entries (first {:?}, last {:?})", blk.len(), blk.keys().next(), blk.keys().next_back()),
                ));
            }
            st.class("block_range_api_compared");
        }
    }
    Ok(())
}

impl Prop for C14 {
    type Case = Case;
    fn id(&self) -> &'static str {
        "C14"
    }
    fn cases(&self, tier: Tier) -> u64 {
        tier.pick(24_000, 1_000_000)
    }
    fn watchdog(&self) -> Option<Duration> {
        Some(Duration::from_secs(60))
    }
    fn hang_is_violation(&self) -> bool {
        true
    }
    fn max_shrink_iters(&self) -> u32 {
        600
    }
    fn strategy(&self, _tier: Tier) -> BoxedStrategy<Case> {
        let start = prop_oneof![
            4 => gen::date(),
            2 => (prop_oneof![Just(1899i32), Just(1900), Just(1999), Just(2000), Just(2099), Just(2100), Just(2023), Just(2024)], -40..=5i64)
                .prop_map(|(y, o)| gen::ymd(y, 12, 31) + chrono::Duration::days(o)),
            2 => (1600..=2399i32, -5..=2i64).prop_map(|(y, o)| gen::ymd(y, 2, 28) + chrono::Duration::days(o)),
            // the statement quantifies over *all* start/end pairs: calendar seams outside 1600-2399 as well
            // (the Julian/Gregorian switch of the library's Julian Day in October 1582, the year 0/1 seam, far years)
            1 => (-40..=20i64).prop_map(|o| gen::ymd(1582, 10, 15) + chrono::Duration::days(o)),
            1 => (-40..=20i64).prop_map(|o| gen::ymd(1, 1, 1) + chrono::Duration::days(o)),
            1 => (-2000..=6000i32, 1u32..=12, 1u32..=28).prop_map(|(y, m, d)| gen::ymd(y, m, d)),
        ];
        (start, 0u32..=64, 0u8..8, 0u8..10, 0.0..1.0f64, -3..=3i64)
            .prop_map(|(start, k, setup, kind, u, jitter)| {
                let kk = k.max(1) as i64;
                let len: i64 = match kind {
                    0 => [-2i64, -1, 0, 1, 2][(u * 5.0) as usize % 5],
                    1 => -((u * 400.0) as i64) - 1,
                    2 | 3 => kk * ((u * 12.0) as i64) + jitter, // multiples / near multiples of k
                    4 | 5 | 6 => (u * 70.0) as i64,
                    7 | 8 => (u * 400.0) as i64,
                    _ => (u * 2000.0) as i64,
                };
                Case { start, len: len.clamp(-400, 2000), k, setup, run_range_api: true }
            })
            .boxed()
    }
    fn check(&self, c: &Case, st: &mut Stats) -> Result<(), Failure> {
        check_case(c, st)?;
        if (c.len > 0 && c.k >= 2) || c.len <= 0 {
            st.nontrivial(c);
        }
        if c.len <= 0 {
            st.class("empty_or_reversed_range");
        }
        if c.len > 0 && (c.k as i64) > c.len {
            st.class("more_parts_than_days");
        }
        if c.len > 0 && c.k >= 2 && c.len % c.k as i64 != 0 {
            st.class("length_not_divisible_by_k");
        }
        if c.len > 0 && c.k >= 2 && c.len % c.k as i64 == 0 {
            st.class("length_divisible_by_k");
        }
        if c.k < 2 {
            st.class("k_0_or_1");
        }
        if st.want_sample() {
            st.sample(json!({"case": c}));
        }
        Ok(())
    }
    fn enumerate(&self, _tier: Tier, shard: usize, nshards: usize, st: &mut Stats) -> Result<(), (Case, Failure)> {
        // exhaustive sub-space: all (len in -3..=130, k in 0..=64) at 3 starts; the range API once per (start, len)
        let starts = [gen::ymd(2023, 12, 20), gen::ymd(2024, 2, 1), gen::ymd(1899, 11, 15)];
        let lens: Vec<i64> = (-3..=130).collect();
        let total = (starts.len() * lens.len()) as u64;
        let (lo, hi) = chunk(total, shard, nshards);
        for idx in lo..hi {
            let start = starts[(idx as usize) % starts.len()];
            let len = lens[(idx as usize) / starts.len()];
            for k in 0..=64u32 {
                let c = Case { start, len, k, setup: (idx % 8) as u8, run_range_api: k == 0 };
                guarded(&c, || check_case(&c, st))?;
                if (len > 0 && k >= 2) || len <= 0 {
                    st.nontrivial_enum(1);
                }
            }
        }
        Ok(())
    }
    fn rule(&self) -> String {
        "enumerated: all (length -3..=130, parts 0..=64) at 3 start dates (26,130 partition checks, 402 range-API comparisons) in both tiers; generated: start anywhere in 1600-2399 with mass near year ends 1899/1900/1999/2000/2099/2100 and Feb 28/29, plus starts around 1582-10-15, around 0001-01-01 and in years -2000..6000, length in -400..=2000 with mass at -2..2 and at (near) multiples of k, k in 0..=64, one of 6 (site, params) setups. For each case: num_days, partition structure, and the range API's keys and values against the single-date API (every date up to 400 days, 16 sampled dates beyond). Non-trivial = non-empty range with k>=2, or an empty/reversed range".into()
    }
    fn assumptions(&self) -> Vec<String> {
        vec![
            "partition(k<2) returns the range itself; for an empty (reversed) range that single part is empty, which is accepted (the union is still exactly the range)".into(),
            "a case that does not finish within 60 s is a hang only if it exceeds the bound again in a fresh process".into(),
        ]
    }
}
