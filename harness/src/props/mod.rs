use crate::engine::{replay_prop, run_prop, RunOpts};

pub mod common;
pub mod c01;
pub mod c07;
pub mod c16;
pub mod c17;

macro_rules! dispatch {
    ($id:expr, $f:ident, $($arg:expr),*) => {
        match $id {
            "C01" => $f(c01::C01, $($arg),*),
            "C07" => $f(c07::C07, $($arg),*),
            "C16" => $f(c16::C16, $($arg),*),
            "C17" => $f(c17::C17, $($arg),*),
            other => {
                eprintln!("unknown property {}", other);
                2
            }
        }
    };
}

pub fn run(id: &str, opts: RunOpts) -> i32 {
    dispatch!(id, run_prop, opts)
}

pub fn replay(id: &str, path: &str) -> i32 {
    dispatch!(id, replay_prop, path)
}
