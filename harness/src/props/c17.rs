//! C17 Hijri conversion is the tabular Islamic calendar, day for day (exhaustive sweep).

use chrono::{Datelike, NaiveDate};
use islamic_prayer_times::HijriDate;
use proptest::prelude::*;
use serde::{Deserialize, Serialize};
use serde_json::json;

use crate::engine::{catch, chunk, guarded, Failure, Prop, Stats, Tier};
use crate::oracle::hijri;

pub struct C17;

#[derive(Clone, Debug, Hash, PartialEq, Eq, Serialize, Deserialize)]
pub struct Case {
    pub date: NaiveDate,
}

fn first() -> NaiveDate {
    NaiveDate::from_ymd_opt(1, 1, 1).unwrap()
}
fn last() -> NaiveDate {
    NaiveDate::from_ymd_opt(9999, 12, 31).unwrap()
}
fn n_dates() -> u64 {
    ((last() - first()).num_days() + 1) as u64
}


impl Prop for C17 {
    type Case = Case;
    fn id(&self) -> &'static str {
        "C17"
    }
    fn cases(&self, _tier: Tier) -> u64 {
        0
    }
    fn strategy(&self, _tier: Tier) -> BoxedStrategy<Case> {
        (0..n_dates() as i64).prop_map(|i| Case { date: first() + chrono::Duration::days(i) }).boxed()
    }
    fn self_test(&self) -> Result<(), String> {
        hijri::self_test()?;
        // the oracle itself has the derived structure the statement lists
        let mut prev = hijri::from_civil(500, 1, 1);
        let mut d = NaiveDate::from_ymd_opt(500, 1, 1).unwrap();
        let mut leap_years = 0;
        let mut years = 0;
        for _ in 0..(10631 * 6) {
            d = d.succ_opt().unwrap();
            let h = hijri::from_civil(d.year() as i64, d.month() as i64, d.day() as i64);
            let ok = if h.day > 1 {
                h.day == prev.day + 1 && h.month == prev.month && h.year == prev.year
            } else if h.month > 1 {
                h.month == prev.month + 1
                    && h.year == prev.year
                    && prev.day == if prev.month % 2 == 1 { 30 } else { 29 }
            } else {
                h.year == prev.year + 1 && prev.month == 12 && prev.day == if prev.leap { 30 } else { 29 }
            };
            if !ok {
                return Err(format!("oracle successor structure broken at {}", d));
            }
            if h.month == 1 && h.day == 1 {
                years += 1;
                if h.leap {
                    leap_years += 1;
                }
            }
            prev = h;
        }
        if years != 180 || leap_years != 66 {
            return Err(format!("oracle leap structure: {} leap of {} years", leap_years, years));
        }
        Ok(())
    }
    fn check(&self, case: &Case, st: &mut Stats) -> Result<(), Failure> {
        let date = case.date;
        st.eval();
        let o = hijri::from_civil(date.year() as i64, date.month() as i64, date.day() as i64);
        let era = if o.pre_epoch() { "pre-epoch" } else { "post-epoch" };
        // history independence: first convert a date 2^k days away (k = 8..=21 from the date itself) - a remembered
        // previous conversion with a truncated or hashed key would then be returned for this date
        {
            let n = date.num_days_from_ce() as i64;
            let k = 8 + (n % 14);
            let step = 1i64 << k;
            let other = if n + step <= last().num_days_from_ce() as i64 { n + step } else { n - step };
            if let Some(d2) = NaiveDate::from_num_days_from_ce_opt(other as i32) {
                if d2 >= first() && d2 <= last() {
                    let _ = catch(|| std::hint::black_box(HijriDate::from(d2)));
                }
            }
        }
        let h = match catch(|| HijriDate::from(date)) {
            Ok(h) => h,
            Err(p) => {
                return Err(Failure::new(
                    format!("hijri-panic:conversion:{}", era),
                    "conversion does not panic",
                    p,
                ))
            }
        };
        let expected = format!(
            "year {} month {} day {} pre_epoch {} (tabular oracle; signed year {})",
            o.shown_year(),
            o.month,
            o.day,
            o.pre_epoch(),
            o.year
        );
        let month = match catch(|| h.month() as u8) {
            Ok(m) => m,
            Err(p) => {
                return Err(Failure::new(
                    format!("hijri-panic:month():{}", era),
                    expected,
                    format!("month() panicked ({}); year {} day {} pre_epoch {}", p, h.year(), h.day(), h.pre_epoch()),
                ))
            }
        };
        if h.year() != o.shown_year() || month != o.month || h.day() != o.day || h.pre_epoch() != o.pre_epoch() {
            let which = if h.pre_epoch() != o.pre_epoch() {
                "era"
            } else if h.year() != o.shown_year() {
                "year"
            } else if month != o.month {
                "month"
            } else {
                "day"
            };
            return Err(Failure::new(
                format!("hijri-mismatch:{}:{}", which, era),
                expected,
                format!("year {} month {} day {} pre_epoch {}", h.year(), month, h.day(), h.pre_epoch()),
            ));
        }
        if h.date() != date {
            return Err(Failure::new("hijri-mismatch:date()", date.to_string(), h.date().to_string()));
        }
        let wd = match catch(|| h.day_of_week() as u8) {
            Ok(w) => w,
            Err(p) => return Err(Failure::new(format!("hijri-panic:day_of_week():{}", era), "weekday", p)),
        };
        let civil = date.weekday().number_from_sunday() as u8;
        if wd != civil {
            return Err(Failure::new(
                format!("hijri-mismatch:weekday:{}", era),
                format!("weekday {} (1=Sunday) as for the civil date", civil),
                format!("weekday {}", wd),
            ));
        }
        // printing: the property only demands that it does not panic; as a sanity check the text must mention the
        // Hijri year and day it was built from (no exact format is imposed)
        let want = format!("{}/{}/{} {}", o.shown_year(), o.month, o.day, if o.pre_epoch() { "B.H." } else { "A.H." });
        match catch(|| h.to_string()) {
            Ok(s) => {
                if !s.contains(&o.shown_year().to_string()) || !s.contains(&o.day.to_string()) {
                    return Err(Failure::new(format!("hijri-mismatch:display:{}", era), format!("text mentioning year {} and day {}", o.shown_year(), o.day), s));
                }
            }
            Err(p) => return Err(Failure::new(format!("hijri-panic:display:{}", era), "printing does not panic", p)),
        }
        // classes
        if o.pre_epoch() {
            st.class("pre_epoch");
        }
        if o.day_of_year == 1 {
            st.class("first_day_of_hijri_year");
        }
        if (o.leap && o.day_of_year == 355) || (!o.leap && o.day_of_year == 354) {
            st.class("last_day_of_hijri_year");
        }
        if o.day_of_year == 355 {
            st.class("leap_day_355");
        }
        if o.day == 30 {
            st.class("day_30");
        }
        if st.want_sample() {
            st.sample(json!({"date": date.to_string(), "library": want, "oracle_signed_year": o.year}));
        }
        Ok(())
    }
    fn enumerate(&self, _tier: Tier, shard: usize, nshards: usize, st: &mut Stats) -> Result<(), (Case, Failure)> {
        let (lo, hi) = chunk(n_dates(), shard, nshards);
        let mut d = first() + chrono::Duration::days(lo as i64);
        for _ in lo..hi {
            let c = Case { date: d };
            guarded(&c, || self.check(&c, st))?;
            st.nontrivial_enum(1);
            if let Some(n) = d.succ_opt() {
                d = n;
            }
        }
        Ok(())
    }
    fn exhaustive(&self, _tier: Tier) -> bool {
        true
    }
    fn rule(&self) -> String {
        "every Gregorian date 0001-01-01..=9999-12-31 is enumerated once (distinct by construction) in both tiers; every date is non-trivial (each is compared field by field, weekday and printed text included, with the integer tabular-calendar oracle) Every conversion is preceded by the conversion of a date 2^k days away (k = 8..21).".into()
    }
    fn assumptions(&self) -> Vec<String> {
        vec![
            "oracle: civil tabular Islamic calendar, epoch 0622-07-19 proleptic Gregorian, leap years 2,5,7,10,13,16,18,21,24,26,29 of each 30-year cycle, extended periodically before the epoch; B.H. year = 1 - signed year".into(),
            "chrono's proleptic Gregorian calendar and weekday are trusted".into(),
            "successor/month-length/leap-count/injectivity facts are checked on the oracle itself (self-test over 6 cycles) and follow for the library from equality at every date".into(),
        ]
    }
}
