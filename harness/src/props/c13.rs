//! C13 Prayer times vary smoothly from one day to the next (histories of consecutive dates).

use chrono::{Datelike, NaiveDate};
use islamic_prayer_times::Prayer;
use proptest::prelude::*;
use serde::{Deserialize, Serialize};
use serde_json::json;

use super::common::*;
use crate::engine::{catch, chunk, Failure, Prop, Stats, Tier, F};
use crate::gen::{self, circ_diff, ParamSpec, Site};

pub struct C13;

#[derive(Clone, Debug, Hash, PartialEq, Eq, Serialize, Deserialize)]
pub struct Case {
    pub site: Site,
    pub method: u8,
    pub start: NaiveDate,
    pub len: u32,
}

const SIX: [Prayer; 6] = [Prayer::Fajr, Prayer::Shurooq, Prayer::Dhuhr, Prayer::Asr, Prayer::Maghrib, Prayer::Isha];
const NAMES: [&str; 6] = ["fajr", "shurooq", "dhuhr", "asr", "maghrib", "isha"];
const MAXN: [&str; 6] = [
    "second_diff_fajr_s",
    "second_diff_shurooq_s",
    "second_diff_dhuhr_s",
    "second_diff_asr_s",
    "second_diff_maghrib_s",
    "second_diff_isha_s",
];
const FIRST_BOUND: i64 = 240;

/// second-difference bound for prayer index i at latitude lat, None if outside the quantifier
fn bound(i: usize, lat: f64) -> Option<i64> {
    let a = lat.abs();
    match i {
        2 => Some(5),
        1 | 4 => Some(8),
        3 => {
            if (25.0..=45.0).contains(&a) {
                Some(8)
            } else {
                None
            }
        }
        0 | 5 => {
            if a <= 40.0 {
                Some(12)
            } else {
                None
            }
        }
        _ => None,
    }
}

fn day_values(site: &Site, params: &islamic_prayer_times::Params, date: NaiveDate) -> [Option<i64>; 6] {
    // a library panic on one day is reported as "no value" for that day; panics are C07's subject
    let Ok(times) = catch(|| compute_p(site, params, date, None)) else {
        return [None; 6];
    };
    let mut v = [None; 6];
    for (i, p) in SIX.iter().enumerate() {
        v[i] = t(&times, *p);
    }
    v
}

fn hot_triple(mid: NaiveDate) -> bool {
    // contains an RA-wrap day, a month/year end or Feb 29
    let prev = mid.pred_opt().unwrap();
    let next = mid.succ_opt().unwrap();
    (mid.month() == 3 && (18..=23).contains(&mid.day()))
        || prev.month() != next.month()
        || (mid.month() == 2 && mid.day() >= 28)
        || (mid.month() == 3 && mid.day() == 1)
}

/// checks the triple (a,b,c) = days (mid-1, mid, mid+1)
fn check_triple(
    lat: f64,
    mid: NaiveDate,
    a: &[Option<i64>; 6],
    b: &[Option<i64>; 6],
    c: &[Option<i64>; 6],
    st: &mut Stats,
) -> Result<(), Failure> {
    st.eval();
    for i in 0..6 {
        let (Some(x), Some(y), Some(z)) = (a[i], b[i], c[i]) else {
            st.skip("triple_with_missing_time");
            continue;
        };
        let d1 = circ_diff(y, x);
        let d2 = circ_diff(z, y);
        st.max("first_diff_s", d1.abs().max(d2.abs()) as f64);
        if d1.abs() >= FIRST_BOUND || d2.abs() >= FIRST_BOUND {
            return Err(Failure::new(
                format!("first-difference:{}", NAMES[i]),
                format!("day-to-day change of {} below {} s", NAMES[i], FIRST_BOUND),
                format!("{}: {} {} {} around {} (changes {:+} s, {:+} s)", NAMES[i], hms(x), hms(y), hms(z), mid, d1, d2),
            ));
        }
        let Some(bd) = bound(i, lat) else { continue };
        let sd = (d2 - d1).abs();
        st.max(MAXN[i], sd as f64);
        if sd > bd {
            let wrap = mid.month() == 3 && (17..=24).contains(&mid.day());
            return Err(Failure::new(
                format!("second-difference:{}{}", NAMES[i], if wrap { ":ra-wrap-window" } else { "" }),
                format!("|second difference| of {} <= {} s", NAMES[i], bd),
                format!("{}: {} {} {} on the days around {} (second difference {:+} s)", NAMES[i], hms(x), hms(y), hms(z), mid, d2 - d1),
            ));
        }
    }
    if hot_triple(mid) {
        st.class("hot_triple_wrap_or_month_end_or_feb29");
    }
    Ok(())
}

const SWEEP_SITES: [(f64, f64, f64); 24] = [
    (45.0, -75.0, -5.0),
    (-45.0, 170.0, 12.0),
    (40.0, 116.4, 8.0),
    (-40.0, -64.0, -4.0),
    (35.0, 139.7, 9.0),
    (-35.0, 18.5, 2.0),
    (30.0, 31.2, 2.0),
    (-30.0, 153.0, 10.0),
    (25.0, 55.3, 4.0),
    (-25.0, -49.3, -3.0),
    (21.4, 39.8, 3.0),
    (-21.4, -140.2, -9.0),
    (10.0, -84.0, -6.0),
    (-10.0, 123.6, 8.0),
    (0.0, 0.0, 0.0),
    (0.0, 180.0, 12.0),
    (44.9, -179.5, -12.0),
    (-44.9, 7.5, 0.5),
    (38.9, -77.0, -5.0),
    (-33.9, 151.2, 10.0),
    (42.3, 69.6, 5.75),
    (-27.5, -109.4, -6.0),
    (33.3, 44.4, 3.0),
    (15.0, 100.0, 7.0),
];

impl Prop for C13 {
    type Case = Case;
    fn id(&self) -> &'static str {
        "C13"
    }
    fn cases(&self, tier: Tier) -> u64 {
        tier.pick(100_000, 4_000_000)
    }
    fn strategy(&self, _tier: Tier) -> BoxedStrategy<Case> {
        let year = prop_oneof![
            3 => 1600..=2399i32,
            1 => prop_oneof![Just(1600), Just(1700), Just(1800), Just(1900), Just(2000), Just(2100), Just(2200), Just(2300), Just(2399)],
            1 => (400..=599i32).prop_map(|q| q * 4),
        ];
        let start = prop_oneof![
            3 => (year.clone(), -10..=0i64).prop_map(|(y, o)| gen::clamp_date(gen::ymd(y, 3, 10) + chrono::Duration::days(o))),
            2 => (year.clone(), -10..=0i64).prop_map(|(y, o)| gen::clamp_date(gen::ymd(y, 12, 20) + chrono::Duration::days(o))),
            2 => (year.clone(), -10..=0i64).prop_map(|(y, o)| gen::clamp_date(gen::ymd(y, 2, 15) + chrono::Duration::days(o))),
            3 => (0..gen::n_dates()).prop_map(gen::date_from_index),
        ];
        let general = (gen::site(45.0, 3.0), gen::pick(&gen::ANGLE_METHODS), start, 3u32..=30).prop_map(|(site, method, start, len)| Case { site, method, start, len });
        // histories centred on a day whose local midnight is within minutes of the RA wrap (site constructed for it)
        let directed = (gen::ra_wrap_site_date(45.0, 3.0, 12.0), gen::pick(&gen::ANGLE_METHODS), 2i64..=4, 5u32..=9)
            .prop_map(|((site, date), method, back, len)| Case { site, method, start: gen::clamp_date(date - chrono::Duration::days(back)), len });
        prop_oneof![5 => general, 1 => directed].boxed()
    }
    fn max_shrink_iters(&self) -> u32 {
        1500
    }
    fn check(&self, c: &Case, st: &mut Stats) -> Result<(), Failure> {
        let params = ParamSpec::plain(c.method).build();
        let lat = c.site.lat.0;
        // history independence: first a sibling history on the same thread - a neighbouring site whose offset (or
        // longitude) differs by a few seconds of clock time, over dates that overlap the case's only partly
        {
            let h = crate::engine::mix(&[c.site.lat.0.to_bits(), c.site.lon.0.to_bits(), c.start.num_days_from_ce() as u64]);
            let mut s2 = c.site;
            let dg = [0.0006, 0.002, 0.004, 0.012][(h % 4) as usize];
            match (h / 4) % 3 {
                0 => s2.gmt = F(if c.site.gmt.0 <= 0.0 { c.site.gmt.0 + dg } else { c.site.gmt.0 - dg }),
                1 => s2.lon = F(if c.site.lon.0 <= 0.0 { c.site.lon.0 + 0.03 } else { c.site.lon.0 - 0.03 }),
                _ => {
                    s2.gmt = F(if c.site.gmt.0 <= 0.0 { c.site.gmt.0 + dg } else { c.site.gmt.0 - dg });
                    s2.lon = F(if c.site.lon.0 <= 0.0 { c.site.lon.0 + dg * 15.0 } else { c.site.lon.0 - dg * 15.0 });
                }
            }
            let back = 1 + ((h / 12) % 3) as i64;
            let mut d = gen::clamp_date(c.start - chrono::Duration::days(back));
            for _ in 0..3 {
                std::hint::black_box(day_values(&s2, &params, d));
                d = gen::clamp_date(d + chrono::Duration::days(1));
            }
        }
        let mut days: Vec<(NaiveDate, [Option<i64>; 6])> = Vec::with_capacity(c.len as usize);
        let mut d = c.start;
        for _ in 0..c.len {
            if d > gen::date_hi() {
                break;
            }
            days.push((d, day_values(&c.site, &params, d)));
            d = d.succ_opt().unwrap();
        }
        let mut hot = false;
        for w in days.windows(3) {
            check_triple(lat, w[1].0, &w[0].1, &w[1].1, &w[2].1, st)?;
            hot |= hot_triple(w[1].0);
        }
        if days.len() >= 3 {
            st.class_n("triples", (days.len() - 2) as u64);
            if hot {
                st.nontrivial(c);
            }
        }
        if st.want_sample() {
            st.sample(json!({"case": c, "first_day": days.first().map(|d| d.1), "last_day": days.last().map(|d| d.1)}));
        }
        Ok(())
    }
    fn enumerate(&self, tier: Tier, shard: usize, nshards: usize, st: &mut Stats) -> Result<(), (Case, Failure)> {
        let params = ParamSpec::plain(5).build();
        let params_e = ParamSpec::plain(1).build();
        match tier {
            Tier::Quick => {
                // every triple whose middle day is Mar 16..25, for every year 1600..2399, at 8 sites
                let (lo, hi) = chunk(800, shard, nshards);
                for y in lo..hi {
                    let y = 1600 + y as i32;
                    for (si, &(lat, lon, gmt)) in SWEEP_SITES.iter().enumerate().filter(|(i, _)| i % 3 == (y as usize) % 3) {
                        let site = Site { lat: F(lat), lon: F(lon), elev: F(0.0), gmt: F(gmt) };
                        let p = if si % 2 == 0 { &params } else { &params_e };
                        let mut prev2 = day_values(&site, p, gen::ymd(y, 3, 15));
                        let mut prev1 = day_values(&site, p, gen::ymd(y, 3, 16));
                        for dd in 17..=26u32 {
                            let cur = day_values(&site, p, gen::ymd(y, 3, dd));
                            let mid = gen::ymd(y, 3, dd - 1);
                            check_triple(lat, mid, &prev2, &prev1, &cur, st).map_err(|f| {
                                (Case { site, method: if si % 2 == 0 { 5 } else { 1 }, start: gen::ymd(y, 3, dd - 2), len: 3 }, f)
                            })?;
                            st.nontrivial_enum(1);
                            prev2 = prev1;
                            prev1 = cur;
                        }
                        // calendar seams: the triples centred on Dec 31, Jan 1, Feb 28, (Feb 29), Mar 1
                        for (m0, d0, n) in [(12u32, 29u32, 5i64), (2, 26, 6)] {
                            let first = if m0 == 12 { gen::ymd(y - 1, m0, d0) } else { gen::ymd(y, m0, d0) };
                            if first < gen::date_lo() {
                                continue;
                            }
                            let mut a = day_values(&site, p, first);
                            let mut b = day_values(&site, p, first + chrono::Duration::days(1));
                            for j in 2..n {
                                let dcur = first + chrono::Duration::days(j);
                                let cur = day_values(&site, p, dcur);
                                check_triple(lat, dcur - chrono::Duration::days(1), &a, &b, &cur, st).map_err(|f| {
                                    (Case { site, method: if si % 2 == 0 { 5 } else { 1 }, start: dcur - chrono::Duration::days(2), len: 3 }, f)
                                })?;
                                st.nontrivial_enum(1);
                                a = b;
                                b = cur;
                            }
                        }
                    }
                }
            }
            Tier::Thorough => {
                // every consecutive triple of 1600-01-01..2399-12-31 for 24 sites
                let n = gen::n_dates() as u64;
                let (lo, hi) = chunk(n - 2, shard, nshards); // index of the first day of the triple
                for (si, &(lat, lon, gmt)) in SWEEP_SITES.iter().enumerate() {
                    let site = Site { lat: F(lat), lon: F(lon), elev: F(0.0), gmt: F(gmt) };
                    let p = if si % 2 == 0 { &params } else { &params_e };
                    let mut prev2 = day_values(&site, p, gen::date_from_index(lo as i64));
                    let mut prev1 = day_values(&site, p, gen::date_from_index(lo as i64 + 1));
                    for i in lo..hi {
                        let cur = day_values(&site, p, gen::date_from_index(i as i64 + 2));
                        let mid = gen::date_from_index(i as i64 + 1);
                        check_triple(lat, mid, &prev2, &prev1, &cur, st).map_err(|f| {
                            (Case { site, method: if si % 2 == 0 { 5 } else { 1 }, start: gen::date_from_index(i as i64), len: 3 }, f)
                        })?;
                        st.nontrivial_enum(1);
                        prev2 = prev1;
                        prev1 = cur;
                    }
                }
            }
        }
        Ok(())
    }
    fn rule(&self) -> String {
        "histories: generated (site |lat|<=45, GMT within 3 h, angle method, start date anchored before Mar 10 / Dec 20 / Feb 15 of generated years incl. century and leap years or uniform, length 3..30); plus an enumerated sweep (quick: every triple centred on Mar 16-25, on Dec 30 - Jan 1 and on Feb 27 - Mar 1 of every year 1600-2399 at 8 of 24 fixed sites per year; thorough: every consecutive triple of 1600-2399 at 24 fixed sites). evaluations counts triples. One generated history in 6 is centred on a day whose local midnight is within 12 minutes of the RA wrap; every history is preceded by a sibling history (offset/longitude a few seconds away, partly overlapping dates). Non-trivial = a generated history containing a hot triple (RA-wrap day, month/year end, Feb 28/29) counted by case hash, plus every swept triple (distinct by construction)".into()
    }
    fn assumptions(&self) -> Vec<String> {
        vec![
            "differences are taken on the 24 h circle between truncated seconds; the stated bounds (5/8/8/12 s, 240 s) already exceed the +-2 s truncation noise of a second difference".into(),
            "bounds are applied only inside the quantifier: Asr for 25<=|lat|<=45, Fajr/Isha for |lat|<=40".into(),
        ]
    }
    fn tolerances(&self) -> serde_json::Value {
        json!({"second_diff_dhuhr_s": 5, "second_diff_shurooq_s": 8, "second_diff_maghrib_s": 8, "second_diff_asr_s": 8, "second_diff_fajr_s": 12, "second_diff_isha_s": 12, "first_diff_s": "< 240"})
    }
}
