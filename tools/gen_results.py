#!/usr/bin/env python3
"""Regenerates section 12 of DESIGN.md (between the RESULTS markers) from sensitivity/results.json and seeded/*/meta.json."""
import json, glob, os, re

V = '/verif'
out = []
res = json.load(open(f'{V}/sensitivity/results.json')) if os.path.exists(f'{V}/sensitivity/results.json') else {}
muts = {m['name']: m for m in json.load(open(f'{V}/sensitivity/mutants.json'))}

out.append("### 12.1 Own mutants (`sensitivity/mutants.json`, run with `tools/mutest.py --tests`, quick tier)\n")
out.append("`tests` = the repository's own suite with the mutant applied (passed/failed; a mutant that fails the suite is not a *realistic* change but still shows that the check is sensitive). `caught by` lists the checks that were run on it and exited 1; `missed` those that were run and stayed silent.\n")
out.append("| mutant | what | repo tests | caught by | missed |")
out.append("|---|---|---|---|---|")
tot = caught_any = realistic = realistic_caught = 0
for name in sorted(res):
    r = res[name]; m = muts.get(name, {})
    what = m.get('note') or (m.get('file', '') + ': `' + (m.get('new', '')[:60].replace('\n', ' ').replace('|', '\\|')) + '`')
    t = r.get('repo_tests')
    ts = f"{t['passed']}/{t['failed']}" if t else 'n/a'
    c = [k for k, v in r['checks'].items() if v['exit'] == 1]
    mi = [k for k, v in r['checks'].items() if v['exit'] == 0]
    inf = [k for k, v in r['checks'].items() if v['exit'] not in (0, 1)]
    tot += 1; caught_any += bool(c)
    if t and t['failed'] == 0 and t['passed'] >= 94:
        realistic += 1; realistic_caught += bool(c)
    out.append(f"| {name} | {what} | {ts} | {', '.join(c) or '-'} | {', '.join(mi + [x + '(exit 2)' for x in inf]) or '-'} |")
out.append(f"\n{tot} mutants run, {caught_any} caught by at least one check; {realistic} of them pass the repository's suite, of which {realistic_caught} are caught. Four mutants are equivalent to the original within the properties (`c01_jd_month_const` in double precision, `c06_asr_guard_dropped` because cos H of the Asr altitude never exceeds +1, `c16_label_swapped_at_zero` which only relabels a bearing of exactly 0, `c17_weekday_offset` a refactor): they must stay silent and do.\n")

out.append("### 12.2 Seeded changes written by independent sub-agents (`seeded/<ID>-<n>/`)\n")
out.append("Each was written from the property text alone in a scratch worktree, and kept only after confirming: it builds with and without `verif-hooks`, the repository's 94 tests pass with it, its demonstration fails with it and passes without it. `target check` is the quick check of the property it was written against; `all checks that report it` comes from running all 20 quick checks on it.\n")
out.append("| seeded change | needs to manifest | confirmed | target check | all checks that report it |")
out.append("|---|---|---|---|---|")
n = ncaught = 0
for d in sorted(glob.glob(f'{V}/seeded/*/')):
    mp = d + 'meta.json'
    if not os.path.exists(mp): continue
    m = json.load(open(mp))
    sid = os.path.basename(d.rstrip('/'))
    pid = m['property']
    tgt = m.get('checks', {}).get(pid, {})
    allc = [k for k, v in m.get('checks', {}).items() if v.get('exit') == 1]
    if not allc and m.get('thorough_tier', {}).get('caught'):
        allc = [pid + ' (thorough tier only)']
    n += 1; ncaught += bool(allc)
    sig = (tgt.get('signature') or [''])[0].replace('signature: ', '')[:70]
    out.append(f"| {sid} | {m.get('needs', '(see agent_notes.md)')} | {'yes' if m.get('confirmed') else 'NO'} | {'exit ' + str(tgt.get('exit'))} `{sig}` | {', '.join(allc) or '-'} |")
rounds = {}
for d in glob.glob(f'{V}/seeded/*/'):
    sid = os.path.basename(d.rstrip('/'))
    mm = re.match(r'C\d\d-(r\d)-', sid)
    rounds[mm.group(1) if mm else 'r1'] = rounds.get(mm.group(1) if mm else 'r1', 0) + 1
out.append(f"\n{n} seeded changes (per round: {', '.join(k + ' ' + str(rounds[k]) for k in sorted(rounds))}), {ncaught} reported by at least one check; the exceptions are explained in section 10 (10.14: a 32-bit hash collision; 10.19 for round 5).\n")

out.append("### 12.3 Property-preserving changes (`benign/<id>/`, run with `tools/benigntest.py`): must stay silent\n")
out.append("Written by sub-agents from the 20 property texts alone; each builds, passes the repository's suite and is claimed (with an argument in `notes.md`) to keep every property. All 20 quick checks, regression tier included, were run against each.\n")
out.append("| change | repo tests | base | checks run | alarms |")
out.append("|---|---|---|---|---|")
nb = nal = 0
for d in sorted(glob.glob(f'{V}/benign/*/')):
    mp = d + 'meta.json'
    if not os.path.exists(mp): continue
    m = json.load(open(mp))
    nb += 1; nal += bool(m.get('alarms'))
    t = m.get('tests', {})
    verdict = m.get('verdict', '')
    out.append(f"| {m['id']} | {t.get('passed')}/{t.get('failed')} | {m.get('base_commit', '')[:7]} | {len(m.get('checks', {}))} | {', '.join(m.get('alarms', [])) or 'none'}{' - ' + verdict if verdict else ''} |")
out.append(f"\n{nb} property-preserving changes, {nal} with an alarm. What each change does is in `benign/<id>/notes.md` (two changes per file).\n")

am = f'{V}/sensitivity/automut.jsonl'
if os.path.exists(am):
    from collections import Counter
    rows = [json.loads(l) for l in open(am)]
    st = Counter(r['status'].split(':')[0] for r in rows)
    by = Counter(r['status'].split(':')[1] for r in rows if r['status'].startswith('caught'))
    surv = Counter(r['file'] for r in rows if r['status'] == 'survived')
    out.append("### 12.4 Automatic mutants (`tools/automut.py`, `sensitivity/automut.jsonl`, reviewed in `sensitivity/automut_review.md`)\n")
    out.append(f"{len(rows)} single-token mutants sampled over `/repo/src` (seed 1, stratified by file): {st.get('nocompile', 0)} do not compile, {st.get('repo_tests', 0)} are killed by the repository's own tests, {st.get('caught', 0)} pass those tests and are reported by a quick check ({', '.join(k + ' ' + str(v) for k, v in sorted(by.items()))}), {st.get('survived', 0)} pass those tests and survive ({', '.join(os.path.basename(k) + ' ' + str(v) for k, v in surv.most_common())}). Every survivor was read: all are equivalent to the original, equivalent within the stated tolerances (small ephemeris and refraction terms), or change behaviour that no property speaks about; the categories and the individual mutants are listed in the review file. Two of them (the flag of an interval-defined Isha) coincide with a seeded change of round 6 and are reported by the current C05.\n")

text = '\n'.join(out)
p = f'{V}/DESIGN.md'
s = open(p).read()
s = re.sub(r'<!-- RESULTS-BEGIN -->.*<!-- RESULTS-END -->', '<!-- RESULTS-BEGIN -->\n' + text.replace('\\', '\\\\') + '\n<!-- RESULTS-END -->', s, flags=re.S)
open(p, 'w').write(s)
print(f'{tot} mutants, {n} seeded changes written into DESIGN.md')
