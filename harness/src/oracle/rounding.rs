//! Integer model of the rounding policy (DESIGN A.6).

#[derive(Clone, Copy, Debug, PartialEq, Eq)]
pub enum Mode {
    None,
    Normal,
    Special,
    Aggressive,
}

/// prayer index: 0 Imsaak 1 Fajr 2 Shurooq 3 Dhuhr 4 Asr 5 Maghrib 6 Isha
pub fn round(mode: Mode, prayer: usize, h: u32, m: u32, s: u32) -> (u32, u32, u32) {
    let up = |thr: u32| -> (u32, u32, u32) {
        let total = (60 * h + m + if s >= thr { 1 } else { 0 }) % 1440;
        (total / 60, total % 60, 0)
    };
    match mode {
        Mode::None => (h, m, s),
        Mode::Normal => up(30),
        Mode::Special => {
            if prayer == 2 {
                (h, m, 0)
            } else {
                up(30)
            }
        }
        Mode::Aggressive => {
            if prayer == 2 {
                (h, m, 0)
            } else {
                up(1)
            }
        }
    }
}
