#!/usr/bin/env python3
"""Sensitivity runs: apply one mutant (a textual replacement or a patch file) to /repo, run the named
checks at the quick tier with outputs redirected to a scratch directory, restore /repo.

usage: tools/mutest.py [--tests] [--tier quick|thorough] [--only NAME[,NAME..]] [mutants.json]

mutants.json: list of {name, file, old, new, expect: [ids], note} or {name, patch: path, expect}
Results are written to /verif/sensitivity/results.json (one record per mutant x check).
/repo must be clean (git status) before starting; it is restored with `git checkout -- .` after each mutant.
"""
import json, os, subprocess, sys, time, shutil

REPO = '/repo'
VERIF = '/verif'
OUT = '/tmp/ipt_mutest_out'

def sh(cmd, cwd=None, env=None, timeout=3600):
    """Runs a shell command in its own process group; on timeout the whole group is killed (a mutant that makes the
    library loop for ever must not leave orphaned test or check processes behind)."""
    import signal
    e = dict(os.environ)
    if env: e.update(env)
    p = subprocess.Popen(cmd, shell=True, cwd=cwd, env=e, stdout=subprocess.PIPE, stderr=subprocess.PIPE, text=True, start_new_session=True)
    try:
        out, err = p.communicate(timeout=timeout)
        rc = p.returncode
    except subprocess.TimeoutExpired:
        try:
            os.killpg(p.pid, signal.SIGKILL)
        except ProcessLookupError:
            pass
        out, err = p.communicate()
        rc = 124
    class R: pass
    r = R(); r.returncode = rc; r.stdout = out or ''; r.stderr = err or ''
    return r


SCR = '/tmp/ipt_scratch2'

def restore():
    sh(f'git -C {REPO} checkout -- . && git -C {REPO} clean -fdq -e target')

def scratch_setup():
    global REPO
    os.makedirs(SCR, exist_ok=True)
    if not os.path.exists(f'{SCR}/repo'):
        sh(f'git -C /repo worktree add --detach {SCR}/repo HEAD')
    else:
        sh(f'git -C {SCR}/repo checkout -q --detach $(git -C /repo rev-parse HEAD) && git -C {SCR}/repo checkout -- .')
    sh(f'rm -rf {SCR}/harness && cp -r {VERIF}/harness {SCR}/harness && rm -rf {SCR}/harness/fuzz')
    ct = open(f'{SCR}/harness/Cargo.toml').read().replace('path = "/repo"', f'path = "{SCR}/repo"')
    open(f'{SCR}/harness/Cargo.toml', 'w').write(ct)
    open(f'{SCR}/harness/.cargo/config.toml', 'w').write(f'[net]\noffline = true\n[build]\ntarget-dir = "{SCR}/target"\n')
    REPO = f'{SCR}/repo'

def scratch_check(cid, tier, env):
    env = dict(env, CARGO_NET_OFFLINE='true', CARGO_TARGET_DIR=f'{SCR}/target', VERIF_CLI_BIN=f'{SCR}/target/release/islamic_prayer_times')
    subprocess.run('cargo build --release --offline', shell=True, cwd=f'{SCR}/harness', env=env, capture_output=True)
    if cid == 'C19':
        subprocess.run(f'cargo build --release --offline --bin islamic_prayer_times --manifest-path {SCR}/repo/Cargo.toml', shell=True, env=env, capture_output=True)
    return subprocess.run([f'{SCR}/target/release/ipt-verif', cid, tier], capture_output=True, text=True, env=env)

def main():
    args = sys.argv[1:]
    run_tests = False
    tier = 'quick'
    only = None
    save = False
    scratch = False
    while args and args[0].startswith('--'):
        a = args.pop(0)
        if a == '--tests': run_tests = True
        elif a == '--tier': tier = args.pop(0)
        elif a == '--only': only = set(args.pop(0).split(','))
        elif a == '--save-regressions': save = True
        elif a == '--scratch': scratch = True
    path = args[0] if args else f'{VERIF}/sensitivity/mutants.json'
    muts = json.load(open(path))
    if scratch:
        scratch_setup()
    elif sh(f'git -C {REPO} status --porcelain').stdout.strip():
        print('refusing: /repo is not clean'); sys.exit(2)
    os.makedirs(OUT, exist_ok=True)
    respath = f'{VERIF}/sensitivity/results.json'
    results = json.load(open(respath)) if os.path.exists(respath) else {}
    for m in muts:
        name = m['name']
        if only and name not in only: continue
        try:
            if 'patch' in m:
                r = sh(f'git -C {REPO} apply {m["patch"]}')
                if r.returncode != 0:
                    print(f'{name}: patch does not apply: {r.stderr}'); continue
            else:
                fp = os.path.join(REPO, m['file'])
                src = open(fp).read()
                if src.count(m['old']) != 1:
                    print(f'{name}: old text occurs {src.count(m["old"])} times in {m["file"]}; skipped'); continue
                open(fp, 'w').write(src.replace(m['old'], m['new']))
            rec = {'expect': m.get('expect', []), 'note': m.get('note', ''), 'checks': {}}
            if run_tests:
                r = sh(f'cd {REPO} && cargo test --offline 2>&1 | grep -E "^test result|error(\\[|:)"')
                passed = sum(int(l.split()[3]) for l in r.stdout.splitlines() if l.startswith('test result'))
                failed = sum(int(l.split()[5]) for l in r.stdout.splitlines() if l.startswith('test result'))
                rec['repo_tests'] = {'passed': passed, 'failed': failed, 'compiles': 'error' not in r.stdout}
            for cid in m.get('run', m.get('expect', [])):
                t0 = time.time()
                env = dict(os.environ, VERIF_OUT=OUT, VERIF_NO_REGRESSIONS='1')
                r = scratch_check(cid, tier, env) if scratch else subprocess.run([f'{VERIF}/check', cid, tier], capture_output=True, text=True, env=env)
                sig = [l.strip() for l in r.stdout.splitlines() if l.strip().startswith('signature:')]
                rec['checks'][cid] = {'exit': r.returncode, 'wall_s': round(time.time() - t0, 1), 'signature': sig[:1], 'tier': tier}
                print(f'{name:40s} {cid} exit={r.returncode} {sig[:1]} ({time.time()-t0:.1f}s)', flush=True)
                if save and r.returncode == 1:
                    for l in r.stdout.splitlines():
                        if l.startswith('VIOLATION') and 'replay=' in l:
                            src = l.split('replay=')[1].strip()
                            if src.startswith(OUT) and os.path.exists(src):
                                dst = f'{VERIF}/regressions/{cid}'
                                os.makedirs(dst, exist_ok=True)
                                shutil.copy(src, f'{dst}/{name}.json')
            results[name] = rec
        finally:
            restore()
        json.dump(results, open(respath, 'w'), indent=1, sort_keys=True)
    shutil.rmtree(OUT, ignore_errors=True)

if __name__ == '__main__':
    main()
