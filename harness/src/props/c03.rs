//! C03 Fajr, Isha and Imsaak occur at the configured solar depression angle.

use chrono::NaiveDate;
use islamic_prayer_times::Prayer;
use proptest::prelude::*;
use serde::{Deserialize, Serialize};
use serde_json::json;

use super::common::*;
use crate::engine::{Failure, Prop, Stats, Tier, F};
use crate::gen::{self, circ_diff, fwd, ParamSpec, Site};
use crate::oracle::ephem;

pub struct C03;

#[derive(Clone, Debug, Hash, PartialEq, Eq, Serialize, Deserialize)]
pub struct Case {
    pub site: Site,
    /// Some(idx) = named angle method with its own angles, None = custom angles below
    pub method: Option<u8>,
    pub fajr: F,
    pub isha: F,
    pub imsaak: F,
    /// larger angles for the monotonicity clause (>= the ones above)
    pub fajr2: F,
    pub isha2: F,
    pub imsaak2: F,
    pub date: NaiveDate,
    /// boundary-directed: Some(k) = replace the latitude by the one found by bisecting (to adjacent f64 values) onto the
    /// existence boundary of Fajr (k=0), Isha (1) or Imsaak (2) on that date, and evaluate the clauses on its valid side
    #[serde(default)]
    pub boundary_lat: Option<u8>,
}

const TOL_DATE_DEC: f64 = 0.03;
const TOL_INSTANT: f64 = 0.5;

fn spec_for(c: &Case, second: bool) -> ParamSpec {
    let mut s = ParamSpec::plain(c.method.unwrap_or(5));
    if second {
        s.fajr_angle = Some(c.fajr2);
        s.isha_angle = Some(c.isha2);
        s.imsaak_angle = Some(c.imsaak2);
    } else if c.method.is_none() {
        s.fajr_angle = Some(c.fajr);
        s.isha_angle = Some(c.isha);
        s.imsaak_angle = Some(c.imsaak);
    } else {
        // named method: keep its table angles (c.fajr/c.isha mirror them), only the Imsaak angle is generated
        s.imsaak_angle = Some(c.imsaak);
    }
    s
}

impl C03 {
    /// Bisects the latitude onto the existence boundary of one twilight event (summer hemisphere, where the Sun's lower
    /// culmination just reaches the depression) and evaluates all clauses at the last valid latitude and a few ulps
    /// equatorward of it. Random latitudes never come within 1e-7 deg of that boundary.
    fn boundary_directed(&self, c: &Case, k: u8, st: &mut Stats) -> Result<(), Failure> {
        let spec = spec_for(c, false);
        let (fa, ia, ima) = spec.angles();
        let (prayer, angle) = match k {
            0 => (Prayer::Fajr, fa),
            1 => (Prayer::Isha, ia),
            _ => (Prayer::Imsaak, fa + ima),
        };
        let d0 = ephem::dec0(c.date, c.site.gmt.0);
        let sign = if d0 >= 0.0 { 1.0 } else { -1.0 };
        let phi_b = 90.0 - angle - d0.abs();
        if !(20.0..=59.7).contains(&phi_b) {
            st.skip("boundary_latitude_outside_20_to_59.7");
            return Ok(());
        }
        let valid = |lat: f64| -> bool {
            let mut s = c.site;
            s.lat = F(lat);
            t(&compute(&s, &spec, c.date, None), prayer).is_some()
        };
        let (mut lo, mut hi) = (sign * (phi_b - 0.3), sign * (phi_b + 0.3).min(60.0));
        if !valid(lo) || valid(hi) {
            st.skip("boundary_bracket_not_found");
            return Ok(());
        }
        for _ in 0..80 {
            let mid = 0.5 * (lo + hi);
            if mid == lo || mid == hi {
                break;
            }
            if valid(mid) {
                lo = mid;
            } else {
                hi = mid;
            }
        }
        // last valid latitude and a few representable values equatorward of it
        // the last valid latitude, 1-3 f64 steps inside, and 1e-12 .. 1e-4 deg inside
        let inside = [0.0, 1e-12, 1e-10, 1e-8, 1e-7, 1e-6, 1e-5, 1e-4];
        for j in 0..11i64 {
            let lat = if j < 4 { f64::from_bits((lo.to_bits() as i64 - j * if lo > 0.0 { 1 } else { -1 }) as u64) } else { lo - sign * inside[(j - 3) as usize] };
            let mut c2 = c.clone();
            c2.site.lat = F(lat);
            c2.boundary_lat = None;
            self.check(&c2, st).map_err(|mut f| {
                f.signature = format!("{}:at-existence-boundary", f.signature);
                f.observed = format!("{} [latitude {:?} is {} f64 steps on the valid side of the {:?} existence boundary]", f.observed, lat, j, prayer);
                f
            })?;
        }
        // and just beyond the boundary (first invalid latitude, 1e-9 .. 1e-3 deg further): whatever is reported there
        // must still satisfy the clauses (normally the entry is simply Invalid and nothing is asserted)
        for (j, d) in [0.0, 1e-9, 1e-7, 1e-6, 1e-5, 1e-4, 3e-4, 1e-3].iter().enumerate() {
            let lat = hi + sign * d;
            if lat.abs() > 60.0 {
                break;
            }
            let mut c2 = c.clone();
            c2.site.lat = F(lat);
            c2.boundary_lat = None;
            self.check(&c2, st).map_err(|mut f| {
                f.signature = format!("{}:beyond-existence-boundary", f.signature);
                f.observed = format!("{} [latitude {:?}: step {} beyond the {:?} existence boundary]", f.observed, lat, j, prayer);
                f
            })?;
        }
        st.class("boundary_directed_latitude_done");
        Ok(())
    }
}

impl Prop for C03 {
    type Case = Case;
    fn id(&self) -> &'static str {
        "C03"
    }
    fn cases(&self, tier: Tier) -> u64 {
        tier.pick(1_000_000, 20_000_000)
    }
    fn strategy(&self, _tier: Tier) -> BoxedStrategy<Case> {
        let angles = prop_oneof![
            1 => gen::pick(&gen::ANGLE_METHODS).prop_map(|m| {
                let (f, i, _) = ParamSpec::plain(m).angles();
                (Some(m), f, i)
            }),
            1 => (9.0..=21.0f64, 9.0..=21.0f64).prop_map(|(f, i)| (None, f, i)),
            1 => (prop_oneof![Just(9.0), Just(21.0), Just(15.0)], prop_oneof![Just(9.0), Just(21.0), Just(12.0)]).prop_map(|(f, i)| (None, f, i)),
            // angles on a half-degree grid (exact coincidences such as Fajr angle + Imsaak angle == Isha angle)
            1 => (18u32..=42, 18u32..=42).prop_map(|(f, i)| (None, f as f64 / 2.0, i as f64 / 2.0)),
        ];
        let im = prop_oneof![2 => Just(1.5), 3 => 0.5..=3.0f64, 1 => prop_oneof![Just(0.5), Just(3.0)], 2 => (1u32..=6).prop_map(|x| x as f64 / 2.0)];
        (gen::site(60.0, 3.0), angles, im, (0.0..=1.0f64, 0.0..=1.0f64, 0.0..=1.0f64), gen::date())
            .prop_map(|(site, (method, f, i), im, (u1, u2, u3), date)| Case {
                site,
                method,
                fajr: F(f),
                isha: F(i),
                imsaak: F(im),
                fajr2: F(f + u1 * (21.0 - f).max(0.0)),
                isha2: F(i + u2 * (21.0 - i).max(0.0)),
                imsaak2: F(im + u3 * (3.0 - im).max(0.0)),
                date,
                boundary_lat: None,
            })
            .prop_flat_map(|c| prop_oneof![40 => Just(None), 1 => (0u8..3).prop_map(Some)].prop_map(move |b| Case { boundary_lat: b, ..c.clone() }))
            .boxed()
    }
    fn self_test(&self) -> Result<(), String> {
        ephem::self_test()
    }
    fn check(&self, c: &Case, st: &mut Stats) -> Result<(), Failure> {
        if let Some(k) = c.boundary_lat {
            return self.boundary_directed(c, k % 3, st);
        }
        st.eval();
        let spec = spec_for(c, false);
        let (fa, ia, ima) = spec.angles();
        if c.method.is_some() && (fa != c.fajr.0 || ia != c.isha.0) {
            // the case mirrors the method table; a mismatch means the library's table differs from the documented one
            return Err(Failure::new(
                "method-angle-table",
                format!("method {} has Fajr/Isha angles {}/{}", gen::METHOD_NAMES[c.method.unwrap() as usize], c.fajr.0, c.isha.0),
                format!("{}/{}", fa, ia),
            ));
        }
        prime(&c.site, &spec, c.date, None, prime_selector(&c.site, c.date));
        let times = compute(&c.site, &spec, c.date, None);
        let (lat, lon, gmt) = (c.site.lat.0, c.site.lon.0, c.site.gmt.0);
        let Some(dh) = t(&times, Prayer::Dhuhr) else {
            return Err(Failure::new("dhuhr-invalid", "Dhuhr reported", gen::fmt_times(&times)));
        };
        let d0 = ephem::dec0(c.date, gmt);
        let mut n_checked = 0;
        for (p, name, angle, before) in [
            (Prayer::Fajr, "fajr", fa, true),
            (Prayer::Isha, "isha", ia, false),
            (Prayer::Imsaak, "imsaak", fa + ima, true),
        ] {
            let Some(tt) = t(&times, p) else {
                st.class("event_does_not_exist");
                continue;
            };
            if flagged(&times, p) == Some(true) {
                return Err(Failure::new(format!("flagged-without-policy:{}", name), "unflagged", "flagged extreme"));
            }
            // side of Dhuhr
            let off = if before { fwd(dh, tt) } else { fwd(tt, dh) };
            if !(off > 0 && off <= 43200) {
                return Err(Failure::new(
                    format!("wrong-side-of-dhuhr:{}", name),
                    format!("{} {} Dhuhr, within 12 h", name, if before { "before" } else { "after" }),
                    format!("{} {} vs Dhuhr {}", name, hms(tt), hms(dh)),
                ));
            }
            // altitude under the date's declination
            let h_deg = circ_diff(tt, dh) as f64 / 240.0;
            let alt = ephem::alt_from(lat, d0, h_deg);
            let r = (alt + angle).abs();
            st.max("abs_residual_date_declination_deg", r);
            if !(r <= TOL_DATE_DEC) {
                return Err(Failure::new(
                    format!("depression-angle:date-declination:{}", name),
                    format!("altitude {:.4} deg (= -{}) within {} under the date's declination {:.4}", -angle, angle, TOL_DATE_DEC, d0),
                    format!("{} {} is {} s from Dhuhr {} -> altitude {:.4}", name, hms(tt), circ_diff(tt, dh), hms(dh), alt),
                ));
            }
            // true instantaneous altitude
            let alt_i = ephem::altitude(ephem::jd_at(c.date, gmt, tt as f64 + 0.5), lat, lon);
            // an event reported across the civil-day seam belongs to the neighbouring day as an instant
            if tt >= 900 && tt <= 86400 - 900 {
                let ri = (alt_i + angle).abs();
                st.max("abs_residual_instantaneous_deg", ri);
                if !(ri <= TOL_INSTANT) {
                    return Err(Failure::new(
                        format!("depression-angle:instantaneous:{}", name),
                        format!("true altitude within {} deg of {:.3}", TOL_INSTANT, -angle),
                        format!("{} {} -> true altitude {:.4}", name, hms(tt), alt_i),
                    ));
                }
            } else {
                st.skip("instantaneous_clause_event_within_15min_of_midnight_seam");
            }
            n_checked += 1;
        }
        // monotonicity in the angle
        let spec2 = spec_for(c, true);
        let times2 = compute(&c.site, &spec2, c.date, None);
        let (fa2, ia2, ima2) = spec2.angles();
        let dh2 = t(&times2, Prayer::Dhuhr);
        if dh2 != Some(dh) {
            return Err(Failure::new("angle-moves-dhuhr", "Dhuhr independent of twilight angles", format!("{:?} vs {}", dh2, dh)));
        }
        for (p, name, before, a1, a2) in [
            (Prayer::Fajr, "fajr", true, fa, fa2),
            (Prayer::Isha, "isha", false, ia, ia2),
            (Prayer::Imsaak, "imsaak", true, fa + ima, fa2 + ima2),
        ] {
            if a2 < a1 {
                continue;
            }
            let (Some(t1), Some(t2)) = (t(&times, p), t(&times2, p)) else { continue };
            let (o1, o2) = if before { (fwd(dh, t1), fwd(dh, t2)) } else { (fwd(t1, dh), fwd(t2, dh)) };
            if o2 < o1 {
                return Err(Failure::new(
                    format!("monotonicity:{}", name),
                    format!("larger angle ({} >= {}) never gives a {} {}", a2, a1, if before { "later" } else { "earlier" }, name),
                    format!("{} at {} deg vs {} at {} deg (Dhuhr {})", hms(t1), a1, hms(t2), a2, hms(dh)),
                ));
            }
            if a2 > a1 {
                st.class("monotonicity_pair_checked");
            }
        }
        if n_checked > 0 {
            st.nontrivial(c);
        }
        st.class(match (lat >= 0.0, d0 >= 0.0) {
            (true, true) => "north_lat_north_dec",
            (true, false) => "north_lat_south_dec",
            (false, true) => "south_lat_north_dec",
            (false, false) => "south_lat_south_dec",
        });
        if lat.abs() >= 48.0 {
            st.class("abs_lat_ge_48");
        }
        if c.method.is_none() {
            st.class("custom_angles");
        }
        if st.want_sample() {
            st.sample(json!({"case": c, "result": gen::fmt_times(&times)}));
        }
        Ok(())
    }
    fn rule(&self) -> String {
        "generated (site |lat|<=60, GMT within 3 h of lon/15, one of the 6 angle methods or custom Fajr/Isha angles in [9,21], Imsaak angle in [0.5,3], a second larger angle triple for the monotonicity clause, date mixture). One case in 41 is boundary-directed (latitude bisected onto the existence boundary of Fajr/Isha/Imsaak, evaluated 0..1e-4 deg inside and 0..1e-3 deg beyond it); every case is preceded by a priming call with a sibling input on the same thread (history independence). Non-trivial = at least one of Fajr/Isha/Imsaak exists and had its altitude checked; distinct by hash of the case".into()
    }
    fn assumptions(&self) -> Vec<String> {
        vec![
            "the date's declination is the oracle's apparent declination at local 0h of the date (the library uses the topocentric one; difference < 0.003 deg)".into(),
            "hour angle from Dhuhr = 15 deg/h x (reported time - reported Dhuhr), both truncated seconds".into(),
            "instantaneous clause skipped (counted) for events within 15 min of the civil-day seam".into(),
        ]
    }
    fn tolerances(&self) -> serde_json::Value {
        json!({"abs_residual_date_declination_deg": TOL_DATE_DEC, "abs_residual_instantaneous_deg": TOL_INSTANT})
    }
}
