//! C19 The CLI reports what the library computes; saved parameters reproduce it.

use std::path::{Path, PathBuf};
use std::process::{Command, Stdio};
use std::sync::atomic::{AtomicU64, Ordering};
use std::time::{Duration, Instant};

use chrono::{Datelike, NaiveDate};
use islamic_prayer_times::{prayer_times_dt_rng, DateRange, HijriDate, Params};
use proptest::prelude::*;
use serde::{Deserialize, Serialize};
use serde_json::{json, Value};

use crate::engine::{out_dir, Failure, Prop, Stats, Tier, F};
use crate::gen::{self, Site, METHODS, PRAYERS, PRAYER_NAMES};

pub struct C19;

const CLI_METHOD: [&str; 9] = ["none", "egyptian", "egypt", "shafi", "hanafi", "isna", "mwl", "umm-al-qurra", "fixed-isha"];

#[derive(Clone, Debug, Hash, PartialEq, Eq, Serialize, Deserialize)]
pub enum Invalid {
    /// replace the named argument's value by this text (argument: 0 latitude, 1 longitude, 2 elevation, 3 gmt, 4 start-date, 5 end-date)
    Arg { which: u8, text: String },
    /// run with -i on a parameter file whose embedded field (0 latitude, 1 longitude, 2 elevation, 3 gmt) is this JSON text
    ParamFile { which: u8, text: String },
}

#[derive(Clone, Debug, Hash, PartialEq, Eq, Serialize, Deserialize)]
pub struct Case {
    pub method: u8,
    pub site: Site,
    pub pass_elevation: bool,
    pub start: NaiveDate,
    pub len: u32,
    pub out_file: bool,
    pub params_file: bool,
    pub invalid: Option<Invalid>,
    /// the -o / -p target paths already exist (with longer, unrelated content) before the tool runs
    #[serde(default)]
    pub preexisting_files: bool,
    /// boundary-directed: move the longitude (by at most 0.3 deg, bisected to adjacent f64 values with the library) to
    /// where the first day's rounded Dhuhr flips from one minute to the next, so that any loss of precision between
    /// the command line, the saved parameter file and the reloaded run changes the output
    #[serde(default)]
    pub boundary_lon: bool,
    /// how arguments are spelled: 0 `--name=value`, 1 short `-x=value`, 2 `--name value` (for non-negative values)
    #[serde(default)]
    pub arg_style: u8,
    /// leave --method out (the documented default is isna)
    #[serde(default)]
    pub omit_method: bool,
    /// leave --end-date out (the end date then defaults to the start date: a one-day range)
    #[serde(default)]
    pub omit_end: bool,
}

/// (long name, short flag) of each CLI option
const FLAGS: [(&str, &str); 7] = [
    ("--latitude", "-l"),
    ("--longitude", "-t"),
    ("--elevation", "-e"),
    ("--gmt", "-g"),
    ("--start-date", "-s"),
    ("--end-date", "-n"),
    ("--method", "-m"),
];

static COUNTER: AtomicU64 = AtomicU64::new(0);

struct Run {
    code: Option<i32>,
    stdout: Vec<u8>,
    stderr: Vec<u8>,
}

fn cli_bin() -> PathBuf {
    std::env::var("VERIF_CLI_BIN").map(PathBuf::from).unwrap_or_else(|_| PathBuf::from("/verif/target/release/islamic_prayer_times"))
}

fn run(args: &[String]) -> Result<Run, Failure> {
    let mut child = Command::new(cli_bin())
        .args(args)
        .stdin(Stdio::null())
        .stdout(Stdio::piped())
        .stderr(Stdio::piped())
        .env("TZ", "UTC")
        .spawn()
        .map_err(|e| Failure::new("infra:cannot-spawn-cli", "binary runs", e.to_string()))?;
    // read pipes in threads so a large listing cannot block the child
    let mut so = child.stdout.take().unwrap();
    let mut se = child.stderr.take().unwrap();
    let h1 = std::thread::spawn(move || {
        let mut v = Vec::new();
        let _ = std::io::Read::read_to_end(&mut so, &mut v);
        v
    });
    let h2 = std::thread::spawn(move || {
        let mut v = Vec::new();
        let _ = std::io::Read::read_to_end(&mut se, &mut v);
        v
    });
    let t0 = Instant::now();
    let status = loop {
        match child.try_wait() {
            Ok(Some(s)) => break s,
            Ok(None) => {
                if t0.elapsed() > Duration::from_secs(90) {
                    let _ = child.kill();
                    let _ = child.wait();
                    return Err(Failure::new("cli-no-exit-within-90s", "the tool terminates", format!("args {:?}", args)));
                }
                std::thread::sleep(Duration::from_millis(2));
            }
            Err(e) => return Err(Failure::new("infra:wait", "wait works", e.to_string())),
        }
    };
    Ok(Run { code: status.code(), stdout: h1.join().unwrap_or_default(), stderr: h2.join().unwrap_or_default() })
}

fn fmt_f(v: f64) -> String {
    format!("{}", v)
}

fn eff_method(c: &Case) -> usize {
    if c.omit_method {
        5 // isna, the documented default
    } else {
        c.method as usize
    }
}
fn eff_len(c: &Case) -> i64 {
    if c.omit_end {
        1
    } else {
        c.len as i64
    }
}

fn base_args(c: &Case) -> Vec<(u8, String, String)> {
    let end = c.start + chrono::Duration::days(eff_len(c) - 1);
    let mut a = vec![
        (0u8, "--latitude".to_string(), fmt_f(c.site.lat.0)),
        (1, "--longitude".to_string(), fmt_f(c.site.lon.0)),
        (3, "--gmt".to_string(), fmt_f(c.site.gmt.0)),
        (4, "--start-date".to_string(), c.start.to_string()),
    ];
    if !c.omit_end {
        a.push((5, "--end-date".to_string(), end.to_string()));
    }
    if !c.omit_method {
        a.push((9, "--method".to_string(), CLI_METHOD[c.method as usize].to_string()));
    }
    if c.pass_elevation {
        a.push((2, "--elevation".to_string(), fmt_f(c.site.elev.0)));
    }
    a
}

/// spells the (name, value) pairs in the case's argument style
fn spell(c: &Case, pairs: &[(u8, String, String)]) -> Vec<String> {
    let mut out = Vec::new();
    for (_, n, v) in pairs {
        let short = FLAGS.iter().find(|(l, _)| l == n).map(|(_, s)| *s);
        match (c.arg_style % 3, short) {
            (1, Some(s)) => out.push(format!("{}={}", s, v)),
            (2, _) if !v.starts_with('-') && !v.is_empty() => {
                out.push(n.clone());
                out.push(v.clone());
            }
            _ => out.push(format!("{}={}", n, v)),
        }
    }
    out
}

type RangeResult = std::collections::BTreeMap<chrono::NaiveDate, std::collections::BTreeMap<islamic_prayer_times::Prayer, Result<islamic_prayer_times::PrayerTime, ()>>>;

/// the library's range result for the case's method, location and dates
fn expected_result(c: &Case) -> RangeResult {
    let params = Params::new(METHODS[eff_method(c)]);
    let mut site = c.site;
    if !c.pass_elevation {
        site.elev = F(0.0);
    }
    let end = c.start + chrono::Duration::days(eff_len(c) - 1);
    prayer_times_dt_rng(&params, site.location(), &DateRange::from(c.start..=end))
}

fn check_listing(c: &Case, stdout: &[u8]) -> Result<(), Failure> {
    let params = Params::new(METHODS[eff_method(c)]);
    let mut site = c.site;
    if !c.pass_elevation {
        site.elev = F(0.0);
    }
    let end = c.start + chrono::Duration::days(eff_len(c) - 1);
    let map = prayer_times_dt_rng(&params, site.location(), &DateRange::from(c.start..=end));
    let text = String::from_utf8_lossy(stdout);
    // lenient parsing: the block of a date starts at the line that contains its Hijri date text and ends where the
    // next date's block starts. If the block names the prayers, each name must be followed by its time (or Invalid); if
    // it does not (a table with the names in a header row), the seven entries must follow the Hijri text in header order
    let lines: Vec<&str> = text.lines().collect();
    let dates: Vec<_> = map.iter().collect();
    let mut starts: Vec<usize> = Vec::with_capacity(dates.len());
    let mut from = 0usize;
    for (d, _) in dates.iter() {
        let hijri = HijriDate::from(**d).to_string();
        match lines[from..].iter().position(|l| l.contains(&hijri)) {
            Some(off) => {
                starts.push(from + off);
                from = from + off + 1;
            }
            None => {
                return Err(Failure::new(
                    "listing:hijri-date",
                    format!("a line for {} containing its Hijri date '{}' (dates in order)", d, hijri),
                    format!("not found after line {} of {} lines", from, lines.len()),
                ))
            }
        }
    }
    // column order of a tabular layout: a line before the first date that names all seven prayers
    let header_order: Option<Vec<usize>> = lines[..starts.first().copied().unwrap_or(0)].iter().rev().find_map(|l| {
        let pos: Vec<Option<usize>> = PRAYER_NAMES.iter().map(|n| l.find(n)).collect();
        if pos.iter().all(|x| x.is_some()) {
            let mut idx: Vec<usize> = (0..7).collect();
            idx.sort_by_key(|&i| pos[i].unwrap());
            Some(idx)
        } else {
            None
        }
    });
    for (i, (d, times)) in dates.iter().enumerate() {
        let end = if i + 1 < starts.len() { starts[i + 1] } else { lines.len() };
        let block = &lines[starts[i]..end];
        let want: Vec<String> = PRAYERS
            .iter()
            .map(|p| match times[p] {
                Ok(pt) => pt.to_string().trim().to_string(),
                Err(()) => "Invalid".to_string(),
            })
            .collect();
        let labelled = PRAYER_NAMES.iter().all(|n| block.iter().any(|l| l.contains(n)));
        if labelled {
            // one labelled entry per prayer: what follows the name must be its time (or Invalid)
            for (pi, name) in PRAYER_NAMES.iter().enumerate() {
                let line = block.iter().find(|l| l.contains(name)).unwrap();
                let rest = line[line.find(name).unwrap() + name.len()..].trim_start_matches(|c: char| c == ':' || c == '-' || c == '=' || c == '|' || c.is_whitespace()).trim();
                let rest = rest.trim_end_matches(|c: char| c == '|' || c.is_whitespace());
                if rest != want[pi] {
                    return Err(Failure::new(format!("listing:wrong-entry:{}", name), format!("{} {} on {}", name, want[pi], d), line.to_string()));
                }
            }
            continue;
        }
        // unlabelled (tabular) layout: the seven entries follow the Hijri date text in the block, in the order of the
        // header if there is one, otherwise in any order; an entry is matched as a whole token (not the tail of a longer time)
        let hijri = HijriDate::from(**d).to_string();
        let joined = block.join("\n");
        let body = &joined[joined.find(&hijri).map(|x| x + hijri.len()).unwrap_or(0)..];
        let find_token = |hay: &str, from: usize, tok: &str, used: &[(usize, usize)]| -> Option<usize> {
            let mut at = from;
            while let Some(off) = hay[at..].find(tok) {
                let st_ = at + off;
                let en = st_ + tok.len();
                let before_ok = hay[..st_].chars().next_back().map_or(true, |c| !(c.is_ascii_digit() || c == ':'));
                let after_ok = hay[en..].chars().next().map_or(true, |c| !(c.is_ascii_alphanumeric() || c == ':'));
                let free = used.iter().all(|(a, b)| en <= *a || st_ >= *b);
                if before_ok && after_ok && free {
                    return Some(st_);
                }
                at = st_ + 1;
                if at >= hay.len() {
                    break;
                }
            }
            None
        };
        match &header_order {
            Some(order) => {
                let mut from = 0usize;
                for &pi in order {
                    match find_token(body, from, &want[pi], &[]) {
                        Some(p0) => from = p0 + want[pi].len(),
                        None => {
                            return Err(Failure::new(
                                format!("listing:wrong-entry:{}", PRAYER_NAMES[pi]),
                                format!("{} {} on {} (column order taken from the header line)", PRAYER_NAMES[pi], want[pi], d),
                                block.join(" / "),
                            ))
                        }
                    }
                }
            }
            None => {
                let mut used: Vec<(usize, usize)> = Vec::new();
                let mut order: Vec<usize> = (0..7).collect();
                order.sort_by_key(|&i| std::cmp::Reverse(want[i].len()));
                for pi in order {
                    match find_token(body, 0, &want[pi], &used) {
                        Some(p0) => used.push((p0, p0 + want[pi].len())),
                        None => {
                            return Err(Failure::new(
                                format!("listing:missing-entry:{}", PRAYER_NAMES[pi]),
                                format!("an entry {} for {} on {}", want[pi], PRAYER_NAMES[pi], d),
                                block.join(" / "),
                            ))
                        }
                    }
                }
            }
        }
    }
    Ok(())
}

/// true if stdout shows prayer entries (a line naming Fajr or Dhuhr)
fn has_listing(stdout: &[u8]) -> bool {
    let t = String::from_utf8_lossy(stdout);
    t.lines().any(|l| l.contains("Fajr") || l.contains("Dhuhr"))
}

fn cmdline(args: &[String]) -> String {
    args.join(" ")
}

/// longitude next to c.site.lon at which the start date's Dhuhr (default rounding of Params::new) changes its minute
fn boundary_longitude(c: &Case) -> Option<f64> {
    // Dhuhr does not depend on the extreme-latitude policy: bisect without it (the default nearest-good-day search
    // costs ~0.3 s per call near the poles)
    let mut params = Params::new(METHODS[eff_method(c)]);
    params.extreme_latitude_method = islamic_prayer_times::ExtremeLatitudeMethod::None;
    let f = |lon: f64| -> Option<i64> {
        let mut s = c.site;
        s.lon = F(lon);
        if !c.pass_elevation {
            s.elev = F(0.0);
        }
        let t = islamic_prayer_times::prayer_times_dt(&params, s.location(), c.start, None);
        t[&islamic_prayer_times::Prayer::Dhuhr].ok().map(|pt| gen::secs(pt.time))
    };
    let (mut lo, mut hi) = ((c.site.lon.0 - 0.3).max(-180.0), (c.site.lon.0 + 0.3).min(180.0));
    let (a, b) = (f(lo)?, f(hi)?);
    if a == b {
        return None;
    }
    for _ in 0..80 {
        let mid = 0.5 * (lo + hi);
        if mid <= lo || mid >= hi {
            break;
        }
        if f(mid)? == a {
            lo = mid;
        } else {
            hi = mid;
        }
    }
    Some(if c.len % 2 == 0 { lo } else { hi })
}

fn check_case(c0: &Case, st: &mut Stats, dir: &Path) -> Result<(), Failure> {
    st.eval();
    let mut cc = c0.clone();
    if c0.boundary_lon && c0.invalid.is_none() {
        if let Some(l) = boundary_longitude(c0) {
            cc.site.lon = F(l);
            st.class("longitude_at_a_rounding_boundary_of_dhuhr");
        }
    }
    let c = &cc;
    let out_a = dir.join("outA.json");
    let params_p = dir.join("params.json");
    let out_b = dir.join("outB.json");
    let mk = |pairs: &[(u8, String, String)]| -> Vec<String> { spell(c, pairs) };

    if let Some(inv) = &c.invalid {
        match inv {
            Invalid::Arg { which, text } => {
                let mut pairs = base_args(c);
                let mut found = false;
                for p in pairs.iter_mut() {
                    if p.0 == *which {
                        p.2 = text.clone();
                        found = true;
                    }
                }
                if !found {
                    pairs.push((2, "--elevation".into(), text.clone()));
                }
                let mut args = mk(&pairs);
                args.push(format!("--output-file-path={}", out_a.display()));
                args.push(format!("--params-file-path={}", params_p.display()));
                let r = run(&args)?;
                if r.code == Some(0) {
                    return Err(Failure::new(
                        format!("invalid-argument-accepted:arg{}", which),
                        "non-zero exit for an out-of-range or malformed value",
                        format!("exit 0 for: {}", cmdline(&args)),
                    ));
                }
                if out_a.exists() || params_p.exists() {
                    return Err(Failure::new("invalid-argument:file-written", "nothing written before rejection", cmdline(&args)));
                }
                if has_listing(&r.stdout) {
                    return Err(Failure::new("invalid-argument:listing-printed", "no listing on stdout", String::from_utf8_lossy(&r.stdout).chars().take(200).collect::<String>()));
                }
                // and also without -o: nothing may be listed
                let args2 = mk(&pairs);
                let r2 = run(&args2)?;
                if r2.code == Some(0) || has_listing(&r2.stdout) {
                    return Err(Failure::new(
                        format!("invalid-argument-accepted:arg{}:listing", which),
                        "non-zero exit and empty stdout",
                        format!("exit {:?}, {} bytes on stdout for: {}", r2.code, r2.stdout.len(), cmdline(&args2)),
                    ));
                }
                st.class("invalid_argument_rejected");
            }
            Invalid::ParamFile { which, text } => {
                // write a valid parameter file with the tool itself, then corrupt one embedded value
                let mut args = mk(&base_args(c));
                args.push(format!("--params-file-path={}", params_p.display()));
                args.push(format!("--output-file-path={}", out_a.display()));
                let r = run(&args)?;
                if r.code != Some(0) {
                    return Err(Failure::new("valid-command-rejected", "exit 0", format!("exit {:?}: {} | {}", r.code, cmdline(&args), String::from_utf8_lossy(&r.stderr))));
                }
                let mut v: Value = serde_json::from_str(&std::fs::read_to_string(&params_p).map_err(|e| Failure::new("params-file-missing", "-p writes the file", e.to_string()))?)
                    .map_err(|e| Failure::new("params-file-not-json", "JSON", e.to_string()))?;
                let marker = "\"@@FIELD@@\"";
                match which {
                    0 => v["location"]["coords"]["latitude"] = json!("@@FIELD@@"),
                    1 => v["location"]["coords"]["longitude"] = json!("@@FIELD@@"),
                    2 => v["location"]["coords"]["elevation"] = json!("@@FIELD@@"),
                    _ => v["location"]["gmt"] = json!("@@FIELD@@"),
                }
                let bad = dir.join("bad.json");
                std::fs::write(&bad, v.to_string().replace(marker, text)).unwrap();
                let args2 = vec![format!("--input-file-path={}", bad.display()), format!("--output-file-path={}", out_b.display())];
                let r2 = run(&args2)?;
                if r2.code == Some(0) || out_b.exists() || has_listing(&r2.stdout) {
                    return Err(Failure::new(
                        format!("invalid-parameter-file-accepted:field{}", which),
                        "non-zero exit, no output file, empty stdout for a parameter file with an out-of-range value",
                        format!("exit {:?}, output file exists: {}, field {} = {}", r2.code, out_b.exists(), which, text),
                    ));
                }
                st.class("invalid_parameter_file_rejected");
            }
        }
        return Ok(());
    }

    // accepted command line
    if c.preexisting_files {
        // a re-run over existing (longer) files: what the tool writes must still be exactly its result
        let junk = format!("{{\"stale\":\"{}\"}}", "x".repeat(200_000));
        let _ = std::fs::write(&out_a, &junk);
        let _ = std::fs::write(&params_p, &junk);
        let _ = std::fs::write(&out_b, &junk);
        st.class("target_files_pre_existing");
    }
    let mut args = mk(&base_args(c));
    if c.out_file {
        args.push(format!("--output-file-path={}", out_a.display()));
    }
    if c.params_file {
        args.push(format!("--params-file-path={}", params_p.display()));
    }
    let ra = run(&args)?;
    if ra.code != Some(0) {
        return Err(Failure::new(
            "valid-command-rejected",
            "exit 0 for an accepted command line",
            format!("exit {:?}: {} | stderr: {}", ra.code, cmdline(&args), String::from_utf8_lossy(&ra.stderr).chars().take(300).collect::<String>()),
        ));
    }
    let out_a_bytes = if c.out_file {
        let bytes = std::fs::read(&out_a).map_err(|e| Failure::new("output-file-missing", "-o writes the file", e.to_string()))?;
        // "decodes to exactly the library's range result": decoded with the library's own Deserialize (the textual form
        // of the file is the library's business), compared as values
        let _: Value = serde_json::from_slice(&bytes).map_err(|e| Failure::new("output-not-json", "JSON output", e.to_string()))?;
        let got: RangeResult = serde_json::from_slice(&bytes)
            .map_err(|e| Failure::new("output-does-not-decode", "JSON output that decodes to the library's range result type", format!("{} ({})", e, cmdline(&args))))?;
        let want = expected_result(c);
        if got != want {
            // find the first differing date for the report
            let mut detail = String::new();
            if got.len() != want.len() {
                detail = format!("{} dates instead of {}", got.len(), want.len());
            } else {
                for (k, wv) in want.iter() {
                    if got.get(k) != Some(wv) {
                        detail = format!("{}: tool {} | library {}", k, got.get(k).map(gen::fmt_times).unwrap_or("missing".into()), gen::fmt_times(wv));
                        break;
                    }
                }
            }
            return Err(Failure::new("json-output-differs-from-library", "the library's range result for the same method, location and dates", format!("{} ({})", detail, cmdline(&args))));
        }
        st.class("json_output_compared");
        Some(bytes)
    } else {
        check_listing(c, &ra.stdout).map_err(|mut f| {
            f.observed = format!("{} ({})", f.observed, cmdline(&args));
            f
        })?;
        st.class("listing_compared");
        None
    };
    if c.params_file {
        if !params_p.exists() {
            return Err(Failure::new("params-file-missing", "-p writes the parameter file", cmdline(&args)));
        }
        // feed it back
        let mut args_b = vec![format!("--input-file-path={}", params_p.display())];
        if c.out_file {
            args_b.push(format!("--output-file-path={}", out_b.display()));
        }
        let rb = run(&args_b)?;
        if rb.code != Some(0) {
            return Err(Failure::new("saved-parameters-rejected", "exit 0 when the saved parameter file is fed back", format!("exit {:?}: {}", rb.code, String::from_utf8_lossy(&rb.stderr).chars().take(300).collect::<String>())));
        }
        if let Some(a) = &out_a_bytes {
            let b = std::fs::read(&out_b).map_err(|e| Failure::new("output-file-missing:replay", "-o writes the file", e.to_string()))?;
            if &b != a {
                return Err(Failure::new("saved-parameters-do-not-reproduce:json", "byte-identical -o output from the saved parameter file", format!("{} vs {} bytes ({})", b.len(), a.len(), cmdline(&args))));
            }
        } else if rb.stdout != ra.stdout {
            return Err(Failure::new("saved-parameters-do-not-reproduce:listing", "byte-identical listing from the saved parameter file", cmdline(&args)));
        }
        st.class("params_round_trip_compared");
    }
    Ok(())
}

fn bad_number(which: u8) -> BoxedStrategy<String> {
    let (lo, hi) = super::c18::RANGES[which as usize];
    prop_oneof![
        3 => (0.0001..=5.0f64, any::<bool>()).prop_map(move |(d, up)| format!("{}", if up { hi + d } else { lo - d })),
        1 => Just(format!("{}", f64::from_bits(hi.to_bits() + 1))),
        1 => Just(format!("{}", f64::from_bits(lo.to_bits() + 1))),
        1 => proptest::sample::select(vec!["NaN", "nan", "inf", "-inf", "abc", "", "1e400", "--5", "12,5", "1e", "0x10"]).prop_map(|s: &str| s.to_string()),
    ]
    .boxed()
}

impl Prop for C19 {
    type Case = Case;
    fn id(&self) -> &'static str {
        "C19"
    }
    fn cases(&self, tier: Tier) -> u64 {
        tier.pick(800, 60_000)
    }
    fn max_shrink_iters(&self) -> u32 {
        60
    }
    fn watchdog(&self) -> Option<Duration> {
        Some(Duration::from_secs(400))
    }
    fn hang_is_violation(&self) -> bool {
        true
    }
    fn strategy(&self, _tier: Tier) -> BoxedStrategy<Case> {
        let lat = prop_oneof![14 => gen::latitude(64.0), 2 => gen::latitude(90.0), 1 => prop_oneof![Just(90.0), Just(-90.0), Just(-0.5), Just(-33.25)]].boxed();
        let site = (lat, gen::longitude(), gen::elevation(), prop_oneof![3 => -12.0..=12.0f64, 3 => (-12..=12i32).prop_map(|h| h as f64), 1 => prop_oneof![Just(12.0), Just(-12.0), Just(-3.5)]])
            .prop_map(|(lat, lon, elev, gmt)| Site { lat: F(lat), lon: F(lon), elev: F(elev), gmt: F(gmt) });
        let len = prop_oneof![3 => Just(1u32), 2 => Just(2u32), 1 => prop_oneof![Just(365u32), Just(366), Just(367), Just(400)], 6 => 1u32..=40, 2 => 1u32..=400, 1 => 360u32..=400];
        let invalid = prop_oneof![
            7 => Just(None),
            2 => (0u8..4).prop_flat_map(|w| bad_number(w).prop_map(move |text| Some(Invalid::Arg { which: w, text }))),
            1 => (4u8..6, proptest::sample::select(vec!["2023-02-30", "2023-13-01", "20230101", "2023/01/01", "", "yesterday", "2023-1-1x", "0000-00-00"]))
                .prop_map(|(which, t): (u8, &str)| Some(Invalid::Arg { which, text: t.to_string() })),
            2 => (0u8..4).prop_flat_map(|w| {
                let (lo, hi) = super::c18::RANGES[w as usize];
                prop_oneof![
                    3 => (0.0001..=5.0f64, any::<bool>()).prop_map(move |(d, up)| format!("{}", if up { hi + d } else { lo - d })),
                    1 => proptest::sample::select(vec!["null", "\"10\"", "1e999", "[]", "true"]).prop_map(|s: &str| s.to_string()),
                ]
                .prop_map(move |text| Some(Invalid::ParamFile { which: w, text }))
            }),
        ];
        let style = (0u8..3, prop_oneof![5 => Just(false), 1 => Just(true)], prop_oneof![5 => Just(false), 1 => Just(true)]);
        (0u8..9, site, any::<bool>(), gen::date(), len, any::<bool>(), any::<bool>(), invalid, any::<bool>(), prop_oneof![4 => Just(false), 1 => Just(true)], style)
            .prop_map(|(method, site, pass_elevation, start, len, out_file, params_file, invalid, preexisting_files, boundary_lon, (arg_style, omit_method, omit_end))| {
                let start = start.min(gen::date_hi() - chrono::Duration::days(400));
                // a sixth of the long ranges are placed so that they end on Dec 31, Jan 1, Feb 28/29 or Mar 1
                let start = if len >= 300 && start.day() % 6 == 0 {
                    let y = start.year().clamp(1601, 2398);
                    let end = match start.day() / 6 % 4 {
                        0 => gen::ymd(y + 1, 1, 1),
                        1 => gen::ymd(y, 12, 31),
                        2 => gen::ymd(y + 1, 3, 1),
                        _ => gen::ymd(y + 1, 3, 1) - chrono::Duration::days(1),
                    };
                    end - chrono::Duration::days(len as i64 - 1)
                } else {
                    start
                };
                // the default nearest-good-day policy costs up to ~40 ms per day beyond the polar circles: keep
                // long ranges to moderate latitudes (both dimensions are still covered, not their product)
                let len = if site.lat.0.abs() > 64.0 { len.min(2) } else if site.lat.0.abs() > 50.0 { len.min(30) } else { len };
                Case { method, site, pass_elevation, start, len, out_file, params_file, invalid, preexisting_files, boundary_lon, arg_style, omit_method, omit_end }
            })
            .boxed()
    }
    fn self_test(&self) -> Result<(), String> {
        if !cli_bin().exists() {
            return Err(format!("CLI binary {} not built (run through ./check)", cli_bin().display()));
        }
        Ok(())
    }
    fn check(&self, c: &Case, st: &mut Stats) -> Result<(), Failure> {
        let n = COUNTER.fetch_add(1, Ordering::SeqCst);
        let dir = out_dir().join("work").join("c19").join(format!("{}-{}", std::process::id(), n));
        std::fs::create_dir_all(&dir).map_err(|e| Failure::new("infra:mkdir", "work dir", e.to_string()))?;
        let t0 = Instant::now();
        let r = check_case(c, st, &dir);
        if t0.elapsed() > Duration::from_secs(15) {
            eprintln!("note: slow C19 case ({:.0} s): {}", t0.elapsed().as_secs_f64(), serde_json::to_string(c).unwrap_or_default());
        }
        let _ = std::fs::remove_dir_all(&dir);
        if r.is_ok() {
            if c.invalid.is_none() && (c.len >= 2 || c.site.lat.0 < 0.0 || c.site.lon.0 < 0.0 || c.site.gmt.0 < 0.0) {
                st.nontrivial(c);
            }
            if c.invalid.is_some() {
                st.nontrivial(c);
            }
            st.class(match (c.invalid.is_some(), c.out_file, c.params_file) {
                (true, _, _) => "flags_invalid_class",
                (false, false, false) => "flags_none",
                (false, true, false) => "flags_o",
                (false, false, true) => "flags_p_then_i",
                (false, true, true) => "flags_o_p_then_i_o",
            });
            if st.want_sample() {
                st.sample(json!({"case": c}));
            }
        }
        r
    }
    fn rule(&self) -> String {
        "generated command lines: method (9 clap value names), latitude/longitude/elevation/GMT over their full ranges incl. negatives and bounds passed as --name=value, as short flags -x=value or as '--name value' (non-negative values), with shortest round-trip formatting, --method and --end-date sometimes omitted (documented defaults: isna, the start date), start date from the date mixture, length 1..400 (mass at 1, 2, 365, 366, 400), flag set {none, -o, -p, -o -p} with the saved parameter file fed back through -i; invalid class (30 %): one argument just outside its range / NaN / garbage / impossible date, or a parameter file with one out-of-range embedded value. Each case spawns the repository's binary 1-3 times. Non-trivial = accepted command line with >= 2 days or a negative coordinate/offset, or an invalid-class case; distinct by hash of the case".into()
    }
    fn assumptions(&self) -> Vec<String> {
        vec![
            "the binary is built from /repo's current tree (release, hooks off) by ./check; the reference is the library linked into the harness (hooks on, no behavioural difference)".into(),
            "-o JSON is decoded with serde_json::Value and compared with a document built by hand from the library result (not with the library's Serialize impls)".into(),
            "the listing is parsed leniently: one header line per date containing the Hijri date text, then one line per prayer '<Name>: <PrayerTime Display | Invalid>'".into(),
            "start and end dates are always passed (the default is today's date, which is not a function of the inputs)".into(),
        ]
    }
}
