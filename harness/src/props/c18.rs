//! C18 Validated quantities hold only in-range values, however they are constructed.

use islamic_prayer_times::{
    Coordinates, Elevation, ExtremeLatitudeMethod, Gmt, Latitude, Location, Longitude, Method, Params, Pressure, Temperature,
    Weather,
};
use proptest::prelude::*;
use serde::{Deserialize, Serialize};
use serde_json::json;

use crate::engine::{catch, Failure, Prop, Stats, Tier};

pub struct C18;

pub const TYPE_NAMES: [&str; 6] = ["Latitude", "Longitude", "Elevation", "Gmt", "Pressure", "Temperature"];
pub const RANGES: [(f64, f64); 6] = [(-90.0, 90.0), (-180.0, 180.0), (-420.0, 8848.0), (-12.0, 12.0), (100.0, 1050.0), (-90.0, 57.0)];

#[derive(Clone, Debug, Hash, PartialEq, Eq, Serialize, Deserialize)]
pub enum Input {
    /// an f64 given by its bit pattern (so NaN payloads survive the replay file)
    Number { bits: u64 },
    /// FromStr route (Latitude, Longitude, Elevation, Gmt only)
    Text(String),
    /// serde_json::from_str::<T>(doc)
    Json(String),
    /// a composite document with one embedded field of type `ty` set to the JSON text `field`
    /// kind: 0 Coordinates/Weather, 1 Location, 2 ExtremeLatitudeMethod::NearestLatitude*, 3 Params, 4 CLI params file
    Composite { kind: u8, field: String },
}

#[derive(Clone, Debug, Hash, PartialEq, Eq, Serialize, Deserialize)]
pub struct Case {
    pub ty: u8,
    pub input: Input,
}

pub fn in_range(ty: u8, v: f64) -> bool {
    let (lo, hi) = RANGES[ty as usize];
    v.is_finite() && v >= lo && v <= hi
}

/// number route: Ok(bits read back) or Err
pub fn number_route(ty: u8, v: f64) -> Result<u64, String> {
    macro_rules! go {
        ($t:ty) => {
            <$t>::try_from(v).map(|x| f64::from(x).to_bits()).map_err(|e| e.to_string())
        };
    }
    match ty {
        0 => go!(Latitude),
        1 => go!(Longitude),
        2 => go!(Elevation),
        3 => go!(Gmt),
        4 => go!(Pressure),
        _ => go!(Temperature),
    }
}

pub fn text_route(ty: u8, s: &str) -> Option<Result<u64, String>> {
    macro_rules! go {
        ($t:ty) => {
            Some(s.parse::<$t>().map(|x| f64::from(x).to_bits()).map_err(|e| e.to_string()))
        };
    }
    match ty {
        0 => go!(Latitude),
        1 => go!(Longitude),
        2 => go!(Elevation),
        3 => go!(Gmt),
        _ => None,
    }
}

pub fn json_route(ty: u8, doc: &str) -> Result<u64, String> {
    macro_rules! go {
        ($t:ty) => {
            serde_json::from_str::<$t>(doc).map(|x| f64::from(x).to_bits()).map_err(|e| e.to_string())
        };
    }
    match ty {
        0 => go!(Latitude),
        1 => go!(Longitude),
        2 => go!(Elevation),
        3 => go!(Gmt),
        4 => go!(Pressure),
        _ => go!(Temperature),
    }
}

/// Builds the composite document and reports whether the library accepted it.
pub fn composite_route(ty: u8, kind: u8, field: &str) -> Option<(String, Result<(), String>)> {
    let coords = |lat: &str, lon: &str, el: &str| format!("{{\"latitude\":{},\"longitude\":{},\"elevation\":{}}}", lat, lon, el);
    let doc: String;
    let res: Result<(), String>;
    match (kind, ty) {
        (0, 0) => {
            doc = coords(field, "10.5", "0.0");
            res = serde_json::from_str::<Coordinates>(&doc).map(|_| ()).map_err(|e| e.to_string());
        }
        (0, 1) => {
            doc = coords("10.5", field, "0.0");
            res = serde_json::from_str::<Coordinates>(&doc).map(|_| ()).map_err(|e| e.to_string());
        }
        (0, 2) => {
            doc = coords("10.5", "-20.25", field);
            res = serde_json::from_str::<Coordinates>(&doc).map(|_| ()).map_err(|e| e.to_string());
        }
        (0, 4) => {
            doc = format!("{{\"pressure\":{},\"temperature\":14.0}}", field);
            res = serde_json::from_str::<Weather>(&doc).map(|_| ()).map_err(|e| e.to_string());
        }
        (0, 5) => {
            doc = format!("{{\"pressure\":1010.0,\"temperature\":{}}}", field);
            res = serde_json::from_str::<Weather>(&doc).map(|_| ()).map_err(|e| e.to_string());
        }
        (1, 0) | (1, 1) | (1, 2) | (1, 3) => {
            let c = match ty {
                0 => coords(field, "10.5", "0.0"),
                1 => coords("10.5", field, "0.0"),
                2 => coords("10.5", "-20.25", field),
                _ => coords("10.5", "-20.25", "100"),
            };
            let g = if ty == 3 { field } else { "2.0" };
            doc = format!("{{\"coords\":{},\"gmt\":{}}}", c, g);
            res = serde_json::from_str::<Location>(&doc).map(|_| ()).map_err(|e| e.to_string());
        }
        (2, 0) => {
            let names = ["NearestLatitudeAllPrayersAlways", "NearestLatitudeFajrIshaAlways", "NearestLatitudeFajrIshaInvalid"];
            let n = names[field.len() % 3];
            doc = format!("{{\"{}\":{}}}", n, field);
            res = serde_json::from_str::<ExtremeLatitudeMethod>(&doc).map(|_| ()).map_err(|e| e.to_string());
        }
        (3, 0) => {
            let mut v = serde_json::to_value(Params::new(Method::Mwl)).unwrap();
            v["extreme_latitude_method"] = json!({"NearestLatitudeFajrIshaInvalid": "@@FIELD@@"});
            doc = v.to_string().replace("\"@@FIELD@@\"", field);
            res = serde_json::from_str::<Params>(&doc).map(|_| ()).map_err(|e| e.to_string());
        }
        _ => return None,
    }
    Some((doc, res))
}

fn interesting_f64(ty: u8) -> BoxedStrategy<f64> {
    let (lo, hi) = RANGES[ty as usize];
    let span = hi - lo;
    let next_up = |x: f64| f64::from_bits(if x > 0.0 { x.to_bits() + 1 } else if x < 0.0 { x.to_bits() - 1 } else { 1 });
    let next_down = |x: f64| f64::from_bits(if x > 0.0 { x.to_bits() - 1 } else if x < 0.0 { x.to_bits() + 1 } else { 0x8000000000000001 });
    let atoms = vec![
        lo,
        hi,
        next_up(lo),
        next_down(lo),
        next_up(hi),
        next_down(hi),
        lo - 0.1,
        lo + 0.1,
        hi - 0.1,
        hi + 0.1,
        0.0,
        -0.0,
        f64::MIN_POSITIVE,
        -f64::MIN_POSITIVE,
        5e-324,
        -5e-324,
        f64::NAN,
        -f64::NAN,
        f64::from_bits(0x7ff0000000000001),
        f64::from_bits(0xfff8000000000123),
        f64::INFINITY,
        f64::NEG_INFINITY,
        1e308,
        -1e308,
        f64::MAX,
        f64::MIN,
        lo.trunc(),
        hi.trunc(),
        (lo + hi) / 2.0,
    ];
    prop_oneof![
        6 => proptest::sample::select(atoms),
        5 => lo..=hi,
        3 => (lo - span)..=(hi + span),
        2 => (-0.02..=0.02f64, any::<bool>()).prop_map(move |(d, up)| if up { hi + d * span.min(100.0) } else { lo + d * span.min(100.0) }),
        2 => any::<u64>().prop_map(f64::from_bits),
        1 => (lo.ceil() as i64..=hi.floor() as i64).prop_map(|i| i as f64),
    ]
    .boxed()
}


/// integer tokens that alias an in-range value modulo 2^32 / 2^63 / 2^64 (what a narrowing cast or a wrapped
/// conversion would turn into a valid number), and integers right at those powers of two
fn aliasing_integer(ty: u8) -> BoxedStrategy<String> {
    let (lo, hi) = RANGES[ty as usize];
    ((lo.ceil() as i64 - 2)..=(hi.floor() as i64 + 2), 0usize..9, any::<bool>())
        .prop_map(|(n, k, neg)| {
            let base: i128 = [0i128, 1 << 32, 1 << 63, 1 << 64, (1 << 64) - 1 + 1, 1 << 31, 1 << 53, 1i128 << 65, 1 << 16][k];
            let v = if neg { n as i128 - base } else { n as i128 + base };
            format!("{}", v)
        })
        .boxed()
}

fn text_for(ty: u8) -> BoxedStrategy<String> {
    let num = interesting_f64(ty);
    prop_oneof![
        4 => num.clone().prop_map(|v| format!("{}", v)),
        2 => num.clone().prop_map(|v| format!("{:e}", v)),
        2 => num.clone().prop_map(|v| format!("{:.3}", v)),
        1 => num.clone().prop_map(|v| format!("{:+}", v)),
        1 => num.clone().prop_map(|v| format!(" {}", v)),
        1 => num.clone().prop_map(|v| format!("{} ", v)),
        1 => num.clone().prop_map(|v| format!("{}\n", v)),
        1 => num.clone().prop_map(|v| format!("{}f64", v)),
        1 => num.clone().prop_map(|v| format!("{}", v).replace('.', ",")),
        // look-alike characters in the place of ASCII ones (typographic minus, fullwidth digits/sign, Arabic-Indic digits)
        1 => (num.clone(), 0u8..5).prop_map(|(v, k)| {
            let t = format!("{}", if k == 0 { -v.abs() } else { v });
            match k {
                0 => t.replace('-', "\u{2212}"),
                1 => t.replace('-', "\u{FF0D}").replace('.', "\u{FF0E}"),
                2 => t.chars().map(|c| if c.is_ascii_digit() { char::from_u32(0xFF10 + c as u32 - '0' as u32).unwrap() } else { c }).collect(),
                3 => t.chars().map(|c| if c.is_ascii_digit() { char::from_u32(0x0660 + c as u32 - '0' as u32).unwrap() } else { c }).collect(),
                _ => t.replace('e', "\u{0435}").replace('.', "\u{00B7}"),
            }
        }),
        // well-formed numerals of unusual length: leading / trailing zeros, long fractions, zero exponents
        2 => (num.clone(), 0u8..5, prop_oneof![1usize..40, 300usize..1100, 1000usize..5000]).prop_map(|(v, k, n)| {
            let z = "0".repeat(n);
            if !v.is_finite() {
                return format!("{}{}", v, z);
            }
            let t = format!("{}", v);
            let (sign, body) = if let Some(b) = t.strip_prefix('-') { ("-", b.to_string()) } else { ("", t.clone()) };
            match k {
                0 => format!("{}{}{}", sign, z, body),                                                      // leading zeros
                1 => if body.contains('.') { format!("{}{}{}", sign, body, z) } else { format!("{}{}.{}", sign, body, z) }, // trailing zeros
                2 => format!("{}{}e{}0", sign, body, z),                                                    // long zero exponent
                3 => format!("{}{}e-{}", sign, body, z),                                                    // e-000...0
                _ => format!("{}{}.{}1", sign, body.split('.').next().unwrap_or("0"), z),                 // tiny fraction after many zeros
            }
        }),
        1 => aliasing_integer(ty),
        3 => "[+-]?[0-9]{0,4}(\\.[0-9]{0,4})?([eE][+-]?[0-9]{1,3})?",
        2 => proptest::sample::select(vec![
            "", " ", "+", "-", ".", "-.", "e5", "1e", "inf", "-inf", "+inf", "infinity", "-Infinity", "INF", "nan", "NaN", "-nan", "+NaN",
            "0x10", "1_0", "١٢", "４５", "1.2.3", "--1", "+-1", "1e400", "-1e400", "1e-400", "90.0000000000000001", "9e1", "0.9e2",
            "90.", ".5", "-.5", "5.", "1,5", "abc", "12abc", "null", "true", "½", "1e+2", "1E2", "00012", "-0", "+0", "-0.0", "0e0",
            "180", "-180", "8848", "-420", "12", "-12", "1050", "100", "57", "-90", "90",
        ])
        .prop_map(|s: &str| s.to_string()),
        1 => "\\PC{0,8}",
        // long malformed text, mostly multi-byte characters, with 0-3 ASCII bytes in front so that any byte offset
        // (128, 256, 512, 1024, 4096 ...) falls inside a character for some of them
        1 => (0usize..4, prop_oneof![40usize..140, 200usize..700, 900usize..2200], proptest::sample::select(vec!['\u{e9}', '\u{4e2d}', '\u{1F600}', '\u{2212}', '\u{660}']), any::<bool>())
            .prop_map(|(pre, n, ch, digits)| {
                let mut s = "x1-.e"[..pre.min(4)].to_string();
                for i in 0..n {
                    s.push(if digits && i % 7 == 3 { '7' } else { ch });
                }
                s
            }),
    ]
    .boxed()
}

fn json_for(ty: u8) -> BoxedStrategy<String> {
    let num = interesting_f64(ty);
    prop_oneof![
        5 => num.clone().prop_map(|v| serde_json::to_string(&v).unwrap_or_else(|_| "null".into())),
        2 => num.clone().prop_map(|v| format!("{:e}", v)),
        2 => num.clone().prop_map(|v| if v.is_finite() && v.abs() < 1e15 { format!("{}", v.trunc() as i64) } else { format!("{}", v) }),
        1 => num.clone().prop_map(|v| format!("\"{}\"", v)),
        1 => num.clone().prop_map(|v| format!(" {} ", v)),
        1 => num.clone().prop_map(|v| format!("[{}]", v)),
        1 => num.clone().prop_map(|v| format!("{{\"value\":{}}}", v)),
        // long but well-formed JSON numbers (trailing zeros, long exponents) and surrounding whitespace
        1 => (num.clone(), 0u8..3, prop_oneof![1usize..40, 300usize..1100, 1000usize..5000]).prop_map(|(v, k, n)| {
            if !v.is_finite() {
                return "null".to_string();
            }
            let z = "0".repeat(n);
            let t = serde_json::to_string(&v).unwrap();
            match k {
                0 => if t.contains('.') && !t.contains('e') { format!("{}{}", t, z) } else { format!("{}{}", " ".repeat(n), t) },
                1 => if !t.contains('e') { format!("{}e{}0", t, z) } else { format!("{}{}", t, " ".repeat(n)) },
                _ => format!("{}{}{}", "\n".repeat(n.min(50)), t, "\t".repeat(n.min(50))),
            }
        }),
        2 => aliasing_integer(ty),
        2 => "-?(0|[1-9][0-9]{0,4})(\\.[0-9]{1,4})?([eE][+-]?[0-9]{1,3})?",
        2 => proptest::sample::select(vec![
            "null", "true", "NaN", "nan", "Infinity", "-Infinity", "inf", "1e999", "-1e999", "1e-999", "\"\"", "\"90\"", "[]", "{}", "", " ",
            "90", "-90", "90.0", "9e1", "90.00000000000001", "-0", "-0.0", "0", "1E2", "1e+2", "+1", "01", "1.", ".5", "0x5A",
            "180", "-180", "181", "8848", "8849", "-420", "-421", "12", "-12", "13", "1050", "1051", "100", "99", "57", "58", "-91",
            "18446744073709551616", "-9223372036854775809", "1e308", "1.7976931348623157e308", "1.7976931348623159e308", "4.9e-324",
        ])
        .prop_map(|s: &str| s.to_string()),
    ]
    .boxed()
}

impl Prop for C18 {
    type Case = Case;
    fn id(&self) -> &'static str {
        "C18"
    }
    fn cases(&self, tier: Tier) -> u64 {
        tier.pick(2_000_000, 8_000_000)
    }
    fn strategy(&self, _tier: Tier) -> BoxedStrategy<Case> {
        (0u8..6)
            .prop_flat_map(|ty| {
                let number = interesting_f64(ty).prop_map(|v| Input::Number { bits: v.to_bits() });
                let text = text_for(ty).prop_map(Input::Text);
                let jsn = json_for(ty).prop_map(Input::Json);
                let comp = (0u8..4, json_for(ty)).prop_map(|(kind, field)| Input::Composite { kind, field });
                prop_oneof![3 => number, 3 => text, 3 => jsn, 3 => comp].prop_map(move |input| Case { ty, input })
            })
            .boxed()
    }
    fn check(&self, c: &Case, st: &mut Stats) -> Result<(), Failure> {
        check_case(c, st)
    }
    fn post(&self, tier: Tier, seed: u64) -> (serde_json::Value, Option<(Case, Failure)>) {
        if tier != Tier::Thorough {
            return (json!({"fuzz": "not part of the quick tier"}), None);
        }
        // hand-made seeds: every (type, route) with a few number spellings
        let mut seeds = Vec::new();
        for b0 in 0u8..36 {
            for t in ["90", "-90.0", "1e2", "NaN", "8848", "-420.5", "1050", "57", "1e999", "\"12\"", " 12 ", "null"] {
                let mut v = vec![b0];
                v.extend_from_slice(t.as_bytes());
                seeds.push(v);
            }
        }
        let dict = crate::engine::verif_dir().join("harness").join("fuzz").join("c18.dict");
        let runs: u64 = std::env::var("VERIF_FUZZ_RUNS").ok().and_then(|s| s.parse().ok()).unwrap_or(3_000_000);
        let out = crate::fuzzrun::run("c18_routes", seed, runs, 64, &seeds, dict.to_str());
        let mut ev = out.evidence;
        let mut confirmed = None;
        let mut unconfirmed = 0;
        for a in &out.artifacts {
            let Ok(bytes) = std::fs::read(a) else { continue };
            let case = crate::decode::c18_case(&bytes);
            let mut st = Stats::new(0);
            match check_case(&case, &mut st) {
                Ok(()) => unconfirmed += 1,
                Err(f) => {
                    confirmed = Some((case, f));
                    break;
                }
            }
        }
        if let Some(o) = ev.get_mut("fuzz").and_then(|f| f.as_object_mut()) {
            o.insert("artifacts_not_confirmed_by_release_harness".into(), json!(unconfirmed));
        }
        (ev, confirmed)
    }
    fn rule(&self) -> String {
        "generated per type (6): f64 from {both bounds, +-1 ulp and +-0.1 around each, +-0, subnormals, several NaN payloads, +-inf, +-1e308, f64::MAX, uniform inside, uniform in 3x the range, within 2 % of a bound, random bit patterns, integers}; text from formatted values ({}, {:e}, {:.3}, sign, whitespace, suffix, decimal comma), a number grammar, a list of special spellings and arbitrary printable strings; JSON documents likewise (numbers as floats/ints/exponent forms, strings, null, arrays, special tokens); composite documents (Coordinates, Weather, Location, ExtremeLatitudeMethod::NearestLatitude*, Params) with one embedded field. Non-trivial = value within 1 % of a bound, non-finite, or an input the generic f64 parser rejects; distinct by hash of the case".into()
    }
    fn assumptions(&self) -> Vec<String> {
        vec![
            "reference for the text route is str::parse::<f64>, for the JSON route serde_json::from_str::<f64>, each followed by the closed-range predicate; Pressure and Temperature have no text route in the library (not exercised)".into(),
            "a composite document is accepted iff its embedded field is (all other fields are valid constants)".into(),
        ]
    }
}

/// Reference value of a JSON document for the JSON route: whether it is a number at all is decided by the generic
/// serde_json f64 parser; its *value*, when the document is a plain JSON number literal, is the correctly rounded
/// decimal (str::parse::<f64>), so that the route must agree bit for bit with the text and number routes.
pub fn json_reference(doc: &str) -> Option<f64> {
    let generic = serde_json::from_str::<f64>(doc).ok()?;
    let t = doc.trim_matches(|c| c == ' ' || c == '\n' || c == '\t' || c == '\r');
    let b = t.as_bytes();
    let plain = !b.is_empty()
        && b.iter().all(|c| c.is_ascii_digit() || matches!(c, b'-' | b'+' | b'.' | b'e' | b'E'))
        && b.iter().any(|c| c.is_ascii_digit());
    if plain {
        if let Ok(exact) = t.parse::<f64>() {
            if exact.is_finite() {
                return Some(exact);
            }
        }
    }
    Some(generic)
}

pub fn check_case(c: &Case, st: &mut Stats) -> Result<(), Failure> {
    st.eval();
    let ty = c.ty;
    let tn = TYPE_NAMES[ty as usize];
    let (lo, hi) = RANGES[ty as usize];
    let near = |v: f64| !v.is_finite() || (v - lo).abs() <= 0.01 * (hi - lo) || (v - hi).abs() <= 0.01 * (hi - lo);
    // decide(reference value) -> expected acceptance
    let mut judge = |route: &str, reference: Option<f64>, got: Result<Result<u64, String>, String>, shown: &str| -> Result<(), Failure> {
        let got = match got {
            Ok(g) => g,
            Err(p) => return Err(Failure::new(format!("panic:{}:{}", route, tn), "an error value, never a panic", format!("{} on input {}", p, shown))),
        };
        let expect_ok = reference.map_or(false, |v| in_range(ty, v));
        match (expect_ok, got) {
            (true, Ok(bits)) => {
                let v = reference.unwrap();
                if bits != v.to_bits() {
                    return Err(Failure::new(
                        format!("readback:{}:{}", route, tn),
                        format!("accepted value reads back bit-identical ({:?} = {:#x})", v, v.to_bits()),
                        format!("{:?} = {:#x} from input {}", f64::from_bits(bits), bits, shown),
                    ));
                }
                Ok(())
            }
            (false, Err(_)) => Ok(()),
            (true, Err(e)) => Err(Failure::new(
                format!("rejected-valid:{}:{}", route, tn),
                format!("{} accepts {} (in [{}, {}])", tn, shown, lo, hi),
                format!("error: {}", e),
            )),
            (false, Ok(bits)) => Err(Failure::new(
                format!("accepted-invalid:{}:{}", route, tn),
                format!("{} rejects {} (valid range [{}, {}], finite only)", tn, shown, lo, hi),
                format!("accepted as {:?}", f64::from_bits(bits)),
            )),
        }
    };
    let mut nontrivial = false;
    match &c.input {
        Input::Number { bits } => {
            let v = f64::from_bits(*bits);
            judge("number", Some(v), catch(|| number_route(ty, v)), &format!("{:?}", v))?;
            nontrivial = near(v);
            st.class("route_number");
            // the three routes agree: feed the same value through text ({} is round-trip exact) and JSON when finite
            if let Some(r) = catch(|| text_route(ty, &format!("{}", v))).map_err(|p| Failure::new(format!("panic:text:{}", tn), "no panic", p))? {
                let reference = format!("{}", v).parse::<f64>().ok();
                judge("text", reference, Ok(r), &format!("{:?}", format!("{}", v)))?;
            }
            if v.is_finite() {
                // serde_json prints the shortest round-trip decimal; reading it back must give the same bits
                let doc = serde_json::to_string(&v).unwrap();
                judge("json", Some(v), catch(|| json_route(ty, &doc)), &doc)?;
            }
        }
        Input::Text(s) => {
            let Some(r) = catch(|| text_route(ty, s)).map_err(|p| Failure::new(format!("panic:text:{}", tn), "no panic", format!("{} on {:?}", p, s)))? else {
                st.skip("no_text_route_for_pressure_temperature");
                return Ok(());
            };
            let reference = s.parse::<f64>().ok();
            judge("text", reference, Ok(r), &format!("{:?}", s))?;
            nontrivial = reference.map_or(true, near);
            st.class("route_text");
            if reference.is_none() {
                st.class("text_rejected_by_generic_parser");
            }
        }
        Input::Json(doc) => {
            let reference = json_reference(doc);
            judge("json", reference, catch(|| json_route(ty, doc)), doc)?;
            nontrivial = reference.map_or(true, near);
            st.class("route_json");
            if reference.is_none() {
                st.class("json_rejected_by_generic_parser");
            }
        }
        Input::Composite { kind, field } => {
            // the field is spliced into a document as text: it must be exactly one JSON value, otherwise the splice builds a
            // different document (e.g. `1, "x": 0` adds a key) and says nothing about the embedded quantity
            if serde_json::from_str::<serde_json::Value>(field).is_err() {
                st.skip("composite_field_is_not_a_single_json_value");
                return Ok(());
            }
            let reference = json_reference(field);
            let r = catch(|| composite_route(ty, *kind, field))
                .map_err(|p| Failure::new(format!("panic:composite{}:{}", kind, tn), "no panic", format!("{} on field {}", p, field)))?;
            let Some((doc, res)) = r else {
                st.skip("no_such_composite_for_type");
                return Ok(());
            };
            let expect_ok = reference.map_or(false, |v| in_range(ty, v));
            if expect_ok != res.is_ok() {
                return Err(Failure::new(
                    format!("{}:composite{}:{}", if res.is_ok() { "accepted-invalid" } else { "rejected-valid" }, kind, tn),
                    format!("document {} iff the embedded {} {} is in [{}, {}]", if expect_ok { "accepted" } else { "rejected" }, tn, field, lo, hi),
                    format!("{} -> {:?}", doc, res),
                ));
            }
            nontrivial = reference.map_or(true, near);
            st.class("route_composite");
        }
    }
    if nontrivial {
        st.nontrivial(c);
    }
    st.class(TYPE_CLASS[ty as usize]);
    if st.want_sample() {
        st.sample(json!({"case": c}));
    }
    Ok(())
}

const TYPE_CLASS: [&str; 6] = ["type_Latitude", "type_Longitude", "type_Elevation", "type_Gmt", "type_Pressure", "type_Temperature"];
