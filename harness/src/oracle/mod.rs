pub mod ephem;
pub mod hijri;
pub mod qibla;
pub mod rounding;
