#!/usr/bin/env python3
"""False-alarm probe: run every quick check against property-PRESERVING changes written by sub-agents.

usage: tools/benigntest.py [--src /tmp/ben] [--scr /tmp/ipt_scratch3] [--seed N] B01 [B02 ...]
For each <src>_out/<Bxx>/patchN.diff (N=1,2):
  1. in a scratch worktree of /repo HEAD + a private copy of the harness (never /repo itself): the patch applies,
     builds with and without verif-hooks, the existing test suite passes;
  2. all 20 quick checks (regression tier included) run against the patched scratch tree;
  3. stored under /verif/benign/<Bxx>-<N>/ (patch.diff, notes.md, meta.json with exit code per check).
A check that exits non-zero here is either a false alarm of the suite (fix the suite) or the "benign" change is
not benign after all (then it is recorded with benign=false and the reason).
"""
import json, os, shutil, subprocess, sys, time

VERIF = '/verif'
OUT = '/tmp/ipt_ben_out'
SCR = '/tmp/ipt_scratch3'

def sh(cmd, cwd=None, env=None, timeout=3600):
    """Runs a shell command in its own process group; on timeout the whole group is killed (a mutant that makes the
    library loop for ever must not leave orphaned test or check processes behind)."""
    import signal
    e = dict(os.environ)
    if env: e.update(env)
    p = subprocess.Popen(cmd, shell=True, cwd=cwd, env=e, stdout=subprocess.PIPE, stderr=subprocess.PIPE, text=True, start_new_session=True)
    try:
        out, err = p.communicate(timeout=timeout)
        rc = p.returncode
    except subprocess.TimeoutExpired:
        try:
            os.killpg(p.pid, signal.SIGKILL)
        except ProcessLookupError:
            pass
        out, err = p.communicate()
        rc = 124
    class R: pass
    r = R(); r.returncode = rc; r.stdout = out or ''; r.stderr = err or ''
    return r


def tests_summary(out):
    p = sum(int(l.split()[3]) for l in out.splitlines() if l.startswith('test result'))
    f = sum(int(l.split()[5]) for l in out.splitlines() if l.startswith('test result'))
    return p, f

def scratch_setup():
    os.makedirs(SCR, exist_ok=True)
    if not os.path.exists(f'{SCR}/repo'):
        sh(f'git -C /repo worktree add --detach {SCR}/repo HEAD')
    else:
        sh(f'git -C {SCR}/repo checkout -- . && git -C {SCR}/repo checkout -q --detach $(git -C /repo rev-parse HEAD)')
    sh(f'rm -rf {SCR}/harness && cp -r {VERIF}/harness {SCR}/harness')
    ct = open(f'{SCR}/harness/Cargo.toml').read().replace('path = "/repo"', f'path = "{SCR}/repo"')
    open(f'{SCR}/harness/Cargo.toml', 'w').write(ct)
    open(f'{SCR}/harness/.cargo/config.toml', 'w').write(f'[net]\noffline = true\n[build]\ntarget-dir = "{SCR}/target"\n')

def main():
    global SCR
    args = sys.argv[1:]
    src = '/tmp/ben'; seed = '1'; stored = False
    while args and args[0].startswith('--'):
        a = args.pop(0)
        if a == '--src': src = args.pop(0)
        elif a == '--scr': SCR = args.pop(0)
        elif a == '--seed': seed = args.pop(0)
        elif a == '--stored': stored = True   # re-run the patches kept under /verif/benign/<id>/ (ids as arguments, or all)
    scratch_setup()
    os.makedirs(OUT, exist_ok=True)
    env = {'CARGO_NET_OFFLINE': 'true', 'CARGO_TARGET_DIR': f'{SCR}/target', 'VERIF_OUT': OUT, 'VERIF_DIR': VERIF,
           'VERIF_SEED': seed, 'VERIF_CLI_BIN': f'{SCR}/target/release/islamic_prayer_times'}
    head = sh('git -C /repo rev-parse HEAD').stdout.strip()
    work = []
    if stored:
        ids = args or sorted(os.listdir(f'{VERIF}/benign'))
        for i in ids:
            if os.path.exists(f'{VERIF}/benign/{i}/patch.diff'):
                work.append((i.rsplit('-', 1)[0], i.rsplit('-', 1)[1], f'{VERIF}/benign/{i}/patch.diff'))
    else:
        for bid in args:
            for n in (1, 2):
                work.append((bid, n, f'{src}_out/{bid}/patch{n}.diff'))
    for bid, n, patch in work:
        if True:
            if not os.path.exists(patch) or os.path.getsize(patch) == 0:
                print(f'{bid}-{n}: no patch'); continue
            meta = {'id': f'{bid}-{n}', 'base_commit': head, 'seed': int(seed), 'checks': {}}
            sh(f'git -C {SCR}/repo checkout -- .')
            r = sh(f'git -C {SCR}/repo apply {patch}')
            if r.returncode != 0:
                print(f'{bid}-{n}: patch does not apply: {r.stderr[:200]}'); continue
            try:
                tenv = {'CARGO_NET_OFFLINE': 'true', 'CARGO_TARGET_DIR': f'{SCR}/target_t'}
                t = sh('cargo test --offline --no-fail-fast 2>&1', cwd=f'{SCR}/repo', env=tenv)
                p, f = tests_summary(t.stdout)
                meta['tests'] = {'passed': p, 'failed': f}
                b = sh('cargo build --release --offline 2>&1 | tail -5', cwd=f'{SCR}/harness', env=env)
                b2 = sh(f'cargo build --release --offline --bin islamic_prayer_times --manifest-path {SCR}/repo/Cargo.toml 2>&1 | tail -3', env=env)
                meta['build_ok'] = 'error' not in b.stdout and 'error' not in b2.stdout
                if not meta['build_ok']:
                    print(f'{bid}-{n}: harness build failed\n{b.stdout}')
                bad = []
                for i in range(1, 21):
                    cid = f'C{i:02d}'
                    t0 = time.time()
                    c = sh(f'{SCR}/target/release/ipt-verif {cid} quick', env=env)
                    sig = [l.strip() for l in c.stdout.splitlines() if l.strip().startswith('signature:') or l.startswith('VIOLATION') or l.startswith('INFRA')]
                    meta['checks'][cid] = {'exit': c.returncode, 'wall_s': round(time.time() - t0, 1), 'lines': sig[:4]}
                    if c.returncode != 0:
                        bad.append(cid)
                        os.makedirs(f'{OUT}/{bid}-{n}', exist_ok=True)
                        open(f'{OUT}/{bid}-{n}/{cid}.log', 'w').write(c.stdout + c.stderr)
                        for l in c.stdout.splitlines():
                            if l.startswith('VIOLATION') and 'replay=' in l:
                                rp = l.split('replay=')[1].strip()
                                if os.path.exists(rp): shutil.copy(rp, f'{OUT}/{bid}-{n}/{cid}_replay.json')
                meta['alarms'] = bad
            finally:
                sh(f'git -C {SCR}/repo checkout -- .')
            d = f'{VERIF}/benign/{bid}-{n}'
            os.makedirs(d, exist_ok=True)
            if os.path.abspath(patch) != os.path.abspath(f'{d}/patch.diff'):
                shutil.copy(patch, f'{d}/patch.diff')
            if os.path.exists(f'{src}_out/{bid}/notes.md'): shutil.copy(f'{src}_out/{bid}/notes.md', f'{d}/notes.md')
            old = {}
            if os.path.exists(f'{d}/meta.json'):
                try: old = json.load(open(f'{d}/meta.json'))
                except Exception: pass
            for k in ('benign', 'verdict'):
                if k in old: meta[k] = old[k]
            json.dump(meta, open(f'{d}/meta.json', 'w'), indent=1)
            print(f"{bid}-{n}: tests {meta['tests']} alarms={bad}", flush=True)

if __name__ == '__main__':
    main()
