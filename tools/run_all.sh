#!/bin/bash
# usage: tools/run_all.sh [quick|thorough] [seed]   -- runs every check once, prints one line per check
tier="${1:-quick}"; seed="${2:-1}"
cd /verif
rc=0
for i in 01 02 03 04 05 06 07 08 09 10 11 12 13 14 15 16 17 18 19 20; do
  out=$(VERIF_SEED=$seed ./check C$i $tier 2>&1); code=$?
  echo "$out" | grep -E "^C$i |VIOLATION|KNOWN-FINDING|INFRA|INCONCLUSIVE" | sed "s/^/[exit $code] /"
  [ $code -ne 0 ] && rc=1
done
exit $rc
