//! ipt-verif library: engine, generators, oracles and property checks (shared by the binary and the fuzz targets).
pub mod decode;
pub mod engine;
pub mod fuzzrun;
pub mod gen;
pub mod oracle;
pub mod props;
