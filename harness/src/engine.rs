//! Sharded proptest driver, statistics, evidence, replay and watchdog.
//!
//! A run is a pure function of (tree under test, VERIF_SEED, tier): shard `i` gets the seed
//! `splitmix(seed, property, i)`, every random choice is made by proptest strategies, and
//! the evidence counters are merged in shard order.

use std::cell::{Cell, RefCell};
use std::collections::{BTreeMap, HashSet};
use std::fmt::Debug;
use std::hash::{Hash, Hasher};
use std::io::Write;
use std::path::PathBuf;
use std::sync::atomic::{AtomicBool, Ordering};
use std::sync::{Arc, Mutex};
use std::time::{Duration, Instant};

use proptest::strategy::{BoxedStrategy, Strategy};
use proptest::test_runner::{Config, RngSeed, TestCaseError, TestError, TestRunner};
use serde::de::DeserializeOwned;
use serde::{Deserialize, Serialize};
use serde_json::{json, Value};

pub const NSHARDS: usize = 16;

#[derive(Clone, Copy, Debug, PartialEq, Eq)]
pub enum Tier {
    Quick,
    Thorough,
}

impl Tier {
    pub fn name(self) -> &'static str {
        match self {
            Tier::Quick => "quick",
            Tier::Thorough => "thorough",
        }
    }
    pub fn pick<T>(self, quick: T, thorough: T) -> T {
        match self {
            Tier::Quick => quick,
            Tier::Thorough => thorough,
        }
    }
}

/// An f64 that hashes and compares by bit pattern so that cases can derive `Hash`.
#[derive(Clone, Copy, Debug, Serialize, Deserialize, PartialEq, PartialOrd)]
#[serde(transparent)]
pub struct F(pub f64);
impl Hash for F {
    fn hash<H: Hasher>(&self, state: &mut H) {
        self.0.to_bits().hash(state)
    }
}
impl Eq for F {}
impl From<f64> for F {
    fn from(v: f64) -> Self {
        F(v)
    }
}

/// What a check reports when the property does not hold on a case.
#[derive(Clone, Debug, Serialize, Deserialize)]
pub struct Failure {
    /// Signature of the failure *kind* (used to match known findings; never the property id alone).
    pub signature: String,
    pub expected: String,
    pub observed: String,
}

impl Failure {
    pub fn new(sig: impl Into<String>, expected: impl Into<String>, observed: impl Into<String>) -> Self {
        Failure { signature: sig.into(), expected: expected.into(), observed: observed.into() }
    }
}

pub fn splitmix(mut x: u64) -> u64 {
    x = x.wrapping_add(0x9E3779B97F4A7C15);
    let mut z = x;
    z = (z ^ (z >> 30)).wrapping_mul(0xBF58476D1CE4E5B9);
    z = (z ^ (z >> 27)).wrapping_mul(0x94D049BB133111EB);
    z ^ (z >> 31)
}

pub fn mix(parts: &[u64]) -> u64 {
    let mut h = 0x243F6A8885A308D3u64;
    for p in parts {
        h = splitmix(h ^ *p);
    }
    h
}

fn str_hash(s: &str) -> u64 {
    let mut h = 0xcbf29ce484222325u64;
    for b in s.bytes() {
        h ^= b as u64;
        h = h.wrapping_mul(0x100000001b3);
    }
    h
}

/// Per-shard statistics, merged at the end of a run.
pub struct Stats {
    pub evaluations: u64,
    nt_set: HashSet<u64>,
    /// non-trivial cases that are distinct by construction (exhaustive enumeration)
    pub nt_enum: u64,
    pub classes: BTreeMap<&'static str, u64>,
    pub skipped: BTreeMap<&'static str, u64>,
    pub maxima: BTreeMap<&'static str, f64>,
    pub known_hits: BTreeMap<String, u64>,
    first: Vec<Value>,
    reservoir: Vec<Value>,
    seen: u64,
    rs: u64,
    /// set while shrinking/replaying so that counters only reflect generated cases
    pub frozen: bool,
}

const FIRST_SAMPLES: usize = 3;
const RESERVOIR: usize = 5;

impl Stats {
    pub fn new(seed: u64) -> Self {
        Stats {
            evaluations: 0,
            nt_set: HashSet::new(),
            nt_enum: 0,
            classes: BTreeMap::new(),
            skipped: BTreeMap::new(),
            maxima: BTreeMap::new(),
            known_hits: BTreeMap::new(),
            first: Vec::new(),
            reservoir: Vec::new(),
            seen: 0,
            rs: splitmix(seed ^ 0x5a5a),
            frozen: false,
        }
    }
    #[inline]
    pub fn eval(&mut self) {
        if !self.frozen {
            self.evaluations += 1;
        }
    }
    #[inline]
    pub fn evals(&mut self, n: u64) {
        if !self.frozen {
            self.evaluations += n;
        }
    }
    #[inline]
    pub fn class(&mut self, name: &'static str) {
        if !self.frozen {
            *self.classes.entry(name).or_insert(0) += 1;
        }
    }
    #[inline]
    pub fn class_n(&mut self, name: &'static str, n: u64) {
        if !self.frozen {
            *self.classes.entry(name).or_insert(0) += n;
        }
    }
    #[inline]
    pub fn skip(&mut self, name: &'static str) {
        if !self.frozen {
            *self.skipped.entry(name).or_insert(0) += 1;
        }
    }
    #[inline]
    pub fn max(&mut self, name: &'static str, v: f64) {
        if self.frozen || !v.is_finite() {
            return;
        }
        let e = self.maxima.entry(name).or_insert(f64::NEG_INFINITY);
        if v > *e {
            *e = v;
        }
    }
    /// Records a non-trivial case (distinctness measured by a 64-bit hash of the case).
    #[inline]
    pub fn nontrivial<T: Hash>(&mut self, case: &T) {
        if self.frozen {
            return;
        }
        let mut h = std::collections::hash_map::DefaultHasher::new();
        case.hash(&mut h);
        self.nt_set.insert(h.finish());
    }
    #[inline]
    pub fn nontrivial_enum(&mut self, n: u64) {
        if !self.frozen {
            self.nt_enum += n;
        }
    }
    /// True when the next `sample` would be kept (so the caller builds the JSON only then).
    #[inline]
    pub fn want_sample(&mut self) -> bool {
        if self.frozen {
            return false;
        }
        self.seen += 1;
        if self.first.len() < FIRST_SAMPLES {
            return true;
        }
        self.rs = splitmix(self.rs);
        (self.rs % self.seen) < RESERVOIR as u64
    }
    pub fn sample(&mut self, v: Value) {
        if self.first.len() < FIRST_SAMPLES {
            self.first.push(v);
        } else if self.reservoir.len() < RESERVOIR {
            self.reservoir.push(v);
        } else {
            self.rs = splitmix(self.rs);
            let i = (self.rs % RESERVOIR as u64) as usize;
            self.reservoir[i] = v;
        }
    }
    fn merge(&mut self, o: Stats) {
        self.evaluations += o.evaluations;
        self.nt_enum += o.nt_enum;
        self.nt_set.extend(o.nt_set);
        for (k, v) in o.classes {
            *self.classes.entry(k).or_insert(0) += v;
        }
        for (k, v) in o.skipped {
            *self.skipped.entry(k).or_insert(0) += v;
        }
        for (k, v) in o.maxima {
            let e = self.maxima.entry(k).or_insert(f64::NEG_INFINITY);
            if v > *e {
                *e = v;
            }
        }
        for (k, v) in o.known_hits {
            *self.known_hits.entry(k).or_insert(0) += v;
        }
        for v in o.first {
            if self.first.len() < FIRST_SAMPLES {
                self.first.push(v);
            } else if self.reservoir.len() < RESERVOIR {
                self.reservoir.push(v);
            }
        }
        for v in o.reservoir {
            if self.reservoir.len() < RESERVOIR {
                self.reservoir.push(v);
            }
        }
    }
    pub fn distinct_nontrivial(&self) -> u64 {
        self.nt_set.len() as u64 + self.nt_enum
    }
}

/// A property check: a generator, an oracle-backed predicate, and optional enumerated sub-spaces.
pub trait Prop: Sync + Send + 'static {
    type Case: Clone + Debug + Send + Sync + Serialize + DeserializeOwned + 'static;
    fn id(&self) -> &'static str;
    /// Number of proptest cases for the tier (split over the shards).
    fn cases(&self, tier: Tier) -> u64;
    fn strategy(&self, tier: Tier) -> BoxedStrategy<Self::Case>;
    /// The oracle-backed predicate. Must be a pure function of the case and the code under test.
    fn check(&self, case: &Self::Case, st: &mut Stats) -> Result<(), Failure>;
    /// Enumerated (non-random) part for shard `shard` of `nshards`; returns the first failing case.
    fn enumerate(
        &self,
        _tier: Tier,
        _shard: usize,
        _nshards: usize,
        _st: &mut Stats,
    ) -> Result<(), (Self::Case, Failure)> {
        Ok(())
    }
    /// Oracle self-tests run before anything else; a failure here is an infrastructure error (exit 2).
    fn self_test(&self) -> Result<(), String> {
        Ok(())
    }
    fn rule(&self) -> String;
    fn assumptions(&self) -> Vec<String>;
    /// Stated tolerances, echoed into the evidence next to the observed maxima.
    fn tolerances(&self) -> Value {
        json!({})
    }
    fn exhaustive(&self, _tier: Tier) -> bool {
        false
    }
    /// Watchdog bound per case (None = no watchdog). Every property has one, so that a library that stops
    /// terminating cannot stall a check for ever.
    fn watchdog(&self) -> Option<Duration> {
        Some(Duration::from_secs(120))
    }
    /// Whether a confirmed hang is a violation of *this* property (C07: never hangs; C14/C15/C19: a result is
    /// part of the statement). For every other property a hang is reported as an infrastructure condition (exit 2):
    /// it belongs to C07 and says nothing about this property.
    fn hang_is_violation(&self) -> bool {
        false
    }
    fn max_shrink_iters(&self) -> u32 {
        4000
    }
    /// Number of shards to use (C15 owns global hooks and must run one case at a time).
    fn shards(&self) -> usize {
        NSHARDS
    }
    /// Extra evidence keys.
    fn extra_evidence(&self, _tier: Tier) -> Value {
        json!({})
    }
    /// Number of OS processes to split the generated part over (C15: its hooks are process-global, so
    /// parallelism comes from processes, not shards).
    fn processes(&self) -> usize {
        1
    }
    /// Optional extra campaign run after the generated part (e.g. a libFuzzer run in the thorough
    /// tier). Returns extra evidence keys and possibly a confirmed failing case.
    fn post(&self, _tier: Tier, _seed: u64) -> (Value, Option<(Self::Case, Failure)>) {
        (json!({}), None)
    }
}

#[derive(Serialize, Deserialize)]
pub struct ReplayFile {
    pub property: String,
    pub case: Value,
    pub failure: Option<Failure>,
    pub seed: u64,
    pub tier: String,
    pub note: String,
}

#[derive(Deserialize, Clone)]
pub struct KnownFinding {
    pub property: String,
    pub status: String,
    pub signature: String,
    #[serde(default)]
    pub commit: Option<String>,
    pub what: String,
    #[serde(default)]
    pub line: Option<String>,
}

#[derive(Deserialize)]
struct KnownFile {
    findings: Vec<KnownFinding>,
}

pub fn verif_dir() -> PathBuf {
    std::env::var("VERIF_DIR").map(PathBuf::from).unwrap_or_else(|_| PathBuf::from("/verif"))
}

/// Where evidence and replay files are written (VERIF_OUT overrides, used for mutant runs).
pub fn out_dir() -> PathBuf {
    std::env::var("VERIF_OUT").map(PathBuf::from).unwrap_or_else(|_| verif_dir())
}

pub fn load_known(prop: &str) -> Vec<KnownFinding> {
    let p = verif_dir().join("known_findings.json");
    let Ok(s) = std::fs::read_to_string(&p) else { return vec![] };
    let Ok(k) = serde_json::from_str::<KnownFile>(&s) else {
        eprintln!("warning: {} does not parse; treating as empty", p.display());
        return vec![];
    };
    k.findings.into_iter().filter(|f| f.property == prop && f.status == "open").collect()
}

thread_local! {
    pub static LAST_PANIC: RefCell<Option<String>> = const { RefCell::new(None) };
}

pub fn install_panic_recorder() {
    let verbose = std::env::var("VERIF_VERBOSE_PANIC").is_ok();
    std::panic::set_hook(Box::new(move |info| {
        let msg = if let Some(s) = info.payload().downcast_ref::<&str>() {
            s.to_string()
        } else if let Some(s) = info.payload().downcast_ref::<String>() {
            s.clone()
        } else {
            "<non-string panic payload>".to_string()
        };
        let loc = info
            .location()
            .map(|l| {
                let f = l.file();
                let f = f.rsplit("/src/").next().map(|x| format!("src/{}", x)).unwrap_or(f.to_string());
                format!("{}:{}", f, l.line())
            })
            .unwrap_or_else(|| "?".into());
        let text = format!("panic at {}: {}", loc, msg);
        if verbose {
            eprintln!("{}", text);
        }
        LAST_PANIC.with(|p| *p.borrow_mut() = Some(text));
    }));
}

/// Runs `f` catching panics; returns Err(description incl. location) on panic.
pub fn catch<R>(f: impl FnOnce() -> R) -> Result<R, String> {
    LAST_PANIC.with(|p| *p.borrow_mut() = None);
    match std::panic::catch_unwind(std::panic::AssertUnwindSafe(f)) {
        Ok(r) => Ok(r),
        Err(_) => Err(LAST_PANIC.with(|p| p.borrow_mut().take()).unwrap_or_else(|| "panic (no message)".into())),
    }
}

pub struct RunOpts {
    pub tier: Tier,
    pub seed: u64,
}

struct ShardResult<C> {
    stats: Stats,
    failure: Option<(C, Failure)>,
    infra: Option<String>,
}

/// watchdog slot of a shard: start time and the JSON of the case being evaluated
/// (the case is kept as a clone and serialized only if the watchdog trips: serializing every case would cost more than
/// evaluating it for the cheap properties)
pub trait CaseJson: Send {
    fn json(&self) -> String;
}
impl<C: Serialize + Send> CaseJson for C {
    fn json(&self) -> String {
        serde_json::to_string(self).unwrap_or_default()
    }
}
type Slot = Mutex<Option<(Instant, Box<dyn CaseJson>)>>;

thread_local! {
    static MY_SLOT: RefCell<Option<(Arc<Vec<Slot>>, usize)>> = const { RefCell::new(None) };
}

/// Marks the start of the evaluation of a case for the watchdog (no-op on threads without a watchdog slot).
pub fn watch_begin<C: Serialize + Clone + Send + 'static>(case: &C) {
    MY_SLOT.with(|m| {
        if let Some((slots, i)) = m.borrow().as_ref() {
            *slots[*i].lock().unwrap() = Some((Instant::now(), Box::new(case.clone())));
        }
    });
}
pub fn watch_end() {
    MY_SLOT.with(|m| {
        if let Some((slots, i)) = m.borrow().as_ref() {
            *slots[*i].lock().unwrap() = None;
        }
    });
}

fn write_replay<P: Prop>(p: &P, case: &P::Case, failure: Option<&Failure>, opts: &RunOpts, note: &str) -> PathBuf {
    let dir = out_dir().join("replays").join(p.id());
    let _ = std::fs::create_dir_all(&dir);
    let cv = serde_json::to_value(case).unwrap();
    let h = str_hash(&cv.to_string());
    let path = dir.join(format!("{:016x}.json", h));
    let rf = ReplayFile {
        property: p.id().to_string(),
        case: cv,
        failure: failure.cloned(),
        seed: opts.seed,
        tier: opts.tier.name().to_string(),
        note: note.to_string(),
    };
    std::fs::write(&path, serde_json::to_string_pretty(&rf).unwrap()).unwrap();
    path
}

fn write_replay_json(id: &str, case_json: &str, failure: Option<&Failure>, opts: &RunOpts, note: &str) -> PathBuf {
    let dir = out_dir().join("replays").join(id);
    let _ = std::fs::create_dir_all(&dir);
    let cv: Value = serde_json::from_str(case_json).unwrap_or(Value::Null);
    let h = str_hash(&cv.to_string());
    let path = dir.join(format!("{:016x}.json", h));
    let rf = ReplayFile { property: id.to_string(), case: cv, failure: failure.cloned(), seed: opts.seed, tier: opts.tier.name().to_string(), note: note.to_string() };
    std::fs::write(&path, serde_json::to_string_pretty(&rf).unwrap()).unwrap();
    path
}

fn known_match<'a>(known: &'a [KnownFinding], f: &Failure) -> Option<&'a KnownFinding> {
    known.iter().find(|k| f.signature.starts_with(&k.signature))
}

/// Runs a property: exit code 0 held, 1 violation (VIOLATION line printed), 2 inconclusive.
fn child_spec() -> Option<(usize, usize)> {
    let v = std::env::var("VERIF_CHILD").ok()?;
    let (k, n) = v.split_once('/')?;
    Some((k.parse().ok()?, n.parse().ok()?))
}

/// Parent side of process-level sharding: runs N copies of this binary, merges their evidence.
fn run_parent<P: Prop>(p: &P, opts: &RunOpts, n: usize) -> i32 {
    let t0 = Instant::now();
    let exe = match std::env::current_exe() {
        Ok(e) => e,
        Err(e) => {
            eprintln!("INFRA: {}", e);
            return 2;
        }
    };
    let base = out_dir().join("work").join("children").join(p.id());
    let _ = std::fs::remove_dir_all(&base);
    let mut kids = Vec::new();
    for k in 0..n {
        let dir = base.join(format!("{}", k));
        let _ = std::fs::create_dir_all(&dir);
        let c = std::process::Command::new(&exe)
            .arg(p.id())
            .arg(opts.tier.name())
            .env("VERIF_CHILD", format!("{}/{}", k, n))
            .env("VERIF_OUT", &dir)
            .env("VERIF_SEED", format!("{}", opts.seed))
            .stdout(std::process::Stdio::piped())
            .stderr(std::process::Stdio::inherit())
            .spawn();
        match c {
            Ok(c) => kids.push((k, dir, c)),
            Err(e) => {
                eprintln!("INFRA: cannot spawn child: {}", e);
                return 2;
            }
        }
    }
    let mut codes = Vec::new();
    let mut outputs = Vec::new();
    let mut evs = Vec::new();
    for (k, dir, c) in kids {
        let o = c.wait_with_output();
        let (code, text) = match o {
            Ok(o) => (o.status.code().unwrap_or(2), String::from_utf8_lossy(&o.stdout).to_string()),
            Err(_) => (2, String::new()),
        };
        codes.push(code);
        outputs.push(text);
        let ev: Option<Value> = std::fs::read_to_string(dir.join("evidence").join(format!("{}.json", p.id()))).ok().and_then(|s| serde_json::from_str(&s).ok());
        evs.push((k, dir, ev));
    }
    // merge
    let mut evaluations = 0u64;
    let mut cases = 0u64;
    let mut violations = 0i64;
    let mut classes: BTreeMap<String, u64> = BTreeMap::new();
    let mut skipped: BTreeMap<String, u64> = BTreeMap::new();
    let mut known_hits: BTreeMap<String, u64> = BTreeMap::new();
    let mut maxima: BTreeMap<String, f64> = BTreeMap::new();
    let mut hashes: HashSet<u64> = HashSet::new();
    let mut samples: Vec<Value> = Vec::new();
    let mut regress = 0u64;
    let mut violation: Option<Value> = None;
    for (_, _, ev) in evs.iter() {
        let Some(ev) = ev else { continue };
        let c = &ev["coverage"];
        evaluations += c["evaluations"].as_u64().unwrap_or(0);
        cases += c["proptest_cases"].as_u64().unwrap_or(0);
        violations += ev["violations"].as_i64().unwrap_or(0);
        regress += c["regression_cases_replayed"].as_u64().unwrap_or(0);
        for (name, dst) in [("classes", &mut classes), ("skipped", &mut skipped), ("known_finding_hits", &mut known_hits)] {
            if let Some(o) = c[name].as_object() {
                for (k, v) in o {
                    *dst.entry(k.clone()).or_insert(0) += v.as_u64().unwrap_or(0);
                }
            }
        }
        if let Some(o) = c["observed_max"].as_object() {
            for (k, v) in o {
                let x = v.as_f64().unwrap_or(f64::NEG_INFINITY);
                let e = maxima.entry(k.clone()).or_insert(f64::NEG_INFINITY);
                if x > *e {
                    *e = x;
                }
            }
        }
        if let Some(a) = c["nt_hashes"].as_array() {
            hashes.extend(a.iter().filter_map(|x| x.as_u64()));
        }
        if let Some(a) = c["samples"].as_array() {
            for x in a.iter().take(2) {
                if samples.len() < 8 {
                    samples.push(x.clone());
                }
            }
        }
        if violation.is_none() && !c["violation"].is_null() {
            violation = Some(c["violation"].clone());
        }
    }
    let wall = t0.elapsed().as_secs_f64();
    // a child's violation: copy its replay into the parent's replay directory
    let mut replay_path: Option<PathBuf> = None;
    // a child that reported through its watchdog exits without writing evidence: take the path from its stdout
    let stdout_replay: Option<String> = outputs
        .iter()
        .flat_map(|o| o.lines())
        .find(|l| l.starts_with("VIOLATION property="))
        .and_then(|l| l.split("replay=").nth(1))
        .map(|s| s.trim().to_string());
    if violation.is_none() {
        if let Some(src) = &stdout_replay {
            violation = Some(json!({"replay": src, "failure": {"signature": "hang", "expected": "result within the watchdog bound", "observed": "no result (confirmed by a fresh-process replay)"}}));
        }
    }
    if let Some(v) = &violation {
        if let Some(src) = v["replay"].as_str() {
            let dir = out_dir().join("replays").join(p.id());
            let _ = std::fs::create_dir_all(&dir);
            let dst = dir.join(std::path::Path::new(src).file_name().unwrap_or_default());
            if std::fs::copy(src, &dst).is_ok() {
                replay_path = Some(dst);
            }
        }
    }
    let mut coverage = json!({
        "evaluations": evaluations,
        "distinct_nontrivial": hashes.len(),
        "rule": p.rule(),
        "samples": if samples.is_empty() { vec![json!({"note": "no sample recorded"})] } else { samples },
        "classes": classes,
        "skipped": skipped,
        "observed_max": maxima,
        "tolerances": p.tolerances(),
        "proptest_cases": cases,
        "shards": 1,
        "processes": n,
        "exhaustive": p.exhaustive(opts.tier),
        "known_finding_hits": known_hits,
        "regression_cases_replayed": regress,
        "child_exit_codes": codes,
    });
    if let Some(v) = &violation {
        let mut v = v.clone();
        if let Some(rp) = &replay_path {
            v["replay"] = json!(rp.display().to_string());
        }
        coverage["violation"] = v;
    }
    let ev = json!({
        "property_id": p.id(),
        "tier": opts.tier.name(),
        "seed": opts.seed,
        "level": "exploration",
        "coverage": coverage,
        "assumptions": p.assumptions(),
        "wall_s": (wall * 1000.0).round() / 1000.0,
        "violations": violations,
    });
    let evdir = out_dir().join("evidence");
    let _ = std::fs::create_dir_all(&evdir);
    std::fs::write(evdir.join(format!("{}.json", p.id())), serde_json::to_string_pretty(&ev).unwrap() + "\n").unwrap();
    let _ = std::fs::remove_dir_all(&base);
    for k in load_known(p.id()).iter() {
        println!("KNOWN-FINDING: property={} {} (signature {})", p.id(), k.what, k.signature);
    }
    println!(
        "{} {} seed={} evaluations={} distinct_nontrivial={} wall={:.1}s violations={} (processes={})",
        p.id(),
        opts.tier.name(),
        opts.seed,
        evaluations,
        hashes.len(),
        wall,
        violations,
        n
    );
    if codes.iter().any(|c| *c == 1) {
        // echo the first failing child's report, with the replay path rewritten
        for (i, o) in outputs.iter().enumerate() {
            if codes[i] == 1 {
                for l in o.lines() {
                    if l.starts_with("  ") {
                        println!("{}", l);
                    }
                }
                break;
            }
        }
        match replay_path {
            Some(rp) => println!("VIOLATION property={} replay={}", p.id(), rp.display()),
            None => println!("VIOLATION property={} replay={}", p.id(), violation.as_ref().and_then(|v| v["replay"].as_str()).unwrap_or("<missing>")),
        }
        return 1;
    }
    if codes.iter().any(|c| *c != 0) {
        for o in outputs.iter() {
            for l in o.lines().filter(|l| l.starts_with("INCONCLUSIVE") || l.starts_with("INFRA")) {
                println!("{}", l);
            }
        }
        return 2;
    }
    0
}

pub fn run_prop<P: Prop>(p: P, opts: RunOpts) -> i32 {
    let t0 = Instant::now();
    let child = child_spec();
    if p.processes() > 1 && child.is_none() && std::env::var("VERIF_NO_PROCESSES").is_err() {
        if let Err(e) = p.self_test() {
            eprintln!("INFRA: oracle self-test failed for {}: {}", p.id(), e);
            return 2;
        }
        let n = p.processes();
        return run_parent(&p, &opts, n);
    }
    let mut opts = opts;
    let user_seed = opts.seed;
    if let Some((k, _)) = child {
        opts.seed = mix(&[user_seed, 0xC41D, k as u64]);
    }
    let p = Arc::new(p);
    if let Err(e) = p.self_test() {
        eprintln!("INFRA: oracle self-test failed for {}: {}", p.id(), e);
        return 2;
    }
    let known = Arc::new(load_known(p.id()));
    let nshards = p.shards();
    let total_cases = match child {
        Some((k, n)) => {
            let t = p.cases(opts.tier);
            t / n as u64 + if (k as u64) < t % n as u64 { 1 } else { 0 }
        }
        None => p.cases(opts.tier),
    };
    let slots: Arc<Vec<Slot>> = Arc::new((0..nshards).map(|_| Mutex::new(None)).collect());
    let done = Arc::new(AtomicBool::new(false));

    // watchdog monitor
    let monitor = p.watchdog().map(|bound| {
        let slots = slots.clone();
        let done = done.clone();
        let p = p.clone();
        let seed = opts.seed;
        let tier = opts.tier;
        std::thread::spawn(move || {
            while !done.load(Ordering::SeqCst) {
                std::thread::sleep(Duration::from_millis(250));
                for s in slots.iter() {
                    let g = s.lock().unwrap();
                    if let Some((t, c)) = g.as_ref() {
                        if t.elapsed() > bound {
                            let case = c.json();
                            drop(g);
                            let o = RunOpts { tier, seed };
                            if !p.hang_is_violation() {
                                let f = Failure::new("hang", format!("result within {:?}", bound), format!("no result after {:?}", bound));
                                let path = write_replay_json(p.id(), &case, Some(&f), &o, "watchdog trip in a property for which a hang is not a violation (it belongs to C07)");
                                println!(
                                    "INFRA property={} a case did not finish within {:?}; a hang is a matter for C07, not a violation of this property (case saved: {})",
                                    p.id(),
                                    bound,
                                    path.display()
                                );
                                let _ = std::io::stdout().flush();
                                std::process::exit(2);
                            }
                            let f = Failure::new(
                                "hang",
                                format!("result within {:?}", bound),
                                format!("no result after {:?}", bound),
                            );
                            let path = write_replay_json(p.id(), &case, Some(&f), &o, "watchdog trip; confirmed by fresh-process replay before reporting");
                            let confirmed = confirm_hang(p.id(), &path, bound);
                            if confirmed {
                                println!("VIOLATION property={} replay={}", p.id(), path.display());
                                let _ = std::io::stdout().flush();
                                std::process::exit(1);
                            } else {
                                println!(
                                    "INCONCLUSIVE property={} watchdog tripped once but the replay finished within the bound (replay={})",
                                    p.id(),
                                    path.display()
                                );
                                let _ = std::io::stdout().flush();
                                std::process::exit(2);
                            }
                        }
                    }
                }
            }
        })
    });

    let mut handles = Vec::new();
    for shard in 0..nshards {
        let p = p.clone();
        let known = known.clone();
        let slots = slots.clone();
        let tier = opts.tier;
        let seed = opts.seed;
        let cases = total_cases / nshards as u64 + if (shard as u64) < total_cases % nshards as u64 { 1 } else { 0 };
        handles.push(
            std::thread::Builder::new()
                .stack_size(64 << 20)
                .spawn(move || run_shard(&*p, tier, seed, shard, nshards, cases, &known, slots, shard))
                .unwrap(),
        );
    }
    let mut total = Stats::new(opts.seed);
    let mut failures: Vec<(P::Case, Failure)> = Vec::new();
    let mut infra: Vec<String> = Vec::new();
    // regression tier: saved cases (shrunk failures of earlier defects and of seeded changes) are re-evaluated first
    let mut regress_replayed = 0u64;
    let mut regress_failure: Option<(P::Case, Failure, PathBuf)> = None;
    {
        let dir = verif_dir().join("regressions").join(p.id());
        // VERIF_NO_REGRESSIONS=1 disables the tier (used by the sensitivity tools so that they measure the search itself)
        let skip_regress = matches!(child, Some((k, _)) if k != 0) || std::env::var("VERIF_NO_REGRESSIONS").is_ok();
        let mut files: Vec<PathBuf> = if skip_regress { Vec::new() } else { std::fs::read_dir(&dir).map(|d| d.flatten().map(|e| e.path()).collect()).unwrap_or_default() };
        files.sort();
        for f in files {
            if f.extension().map_or(true, |e| e != "json") {
                continue;
            }
            let Ok(text) = std::fs::read_to_string(&f) else { continue };
            let Ok(rf) = serde_json::from_str::<ReplayFile>(&text) else {
                infra.push(format!("regression file {} does not parse", f.display()));
                continue;
            };
            let Ok(case) = serde_json::from_value::<P::Case>(rf.case) else {
                infra.push(format!("regression file {} does not decode as a {} case", f.display(), p.id()));
                continue;
            };
            regress_replayed += 1;
            let mut st = Stats::new(0);
            let r = match catch(|| p.check(&case, &mut st)) {
                Ok(r) => r,
                Err(panic) => Err(Failure::new(format!("harness-or-library panic: {}", panic), "no panic", panic)),
            };
            if let Err(fl) = r {
                if known_match(&known, &fl).is_none() && regress_failure.is_none() {
                    regress_failure = Some((case, fl, f.clone()));
                }
            }
        }
    }
    for h in handles {
        match h.join() {
            Ok(r) => {
                total.merge(r.stats);
                if let Some(f) = r.failure {
                    failures.push(f);
                }
                if let Some(i) = r.infra {
                    infra.push(i);
                }
            }
            Err(_) => infra.push("shard thread panicked outside a check".into()),
        }
    }
    done.store(true, Ordering::SeqCst);
    if let Some(m) = monitor {
        let _ = m.join();
    }

    // optional extra campaign (fuzzing in the thorough tier)
    let (post_evidence, post_failure) = p.post(opts.tier, opts.seed);
    if let Some((c, f)) = post_failure {
        if let Some(k) = known_match(&known, &f) {
            *total.known_hits.entry(k.signature.clone()).or_insert(0) += 1;
        } else {
            failures.push((c, f));
        }
    }
    // pick the smallest failure (by serialized length, then lexicographically) for the report
    failures.sort_by_key(|(c, _)| {
        let s = serde_json::to_string(c).unwrap();
        (s.len(), s)
    });
    let mut violation = failures.first().cloned();
    let wall = t0.elapsed().as_secs_f64();

    let mut replay_path = None;
    if let Some((case, f)) = &violation {
        replay_path = Some(write_replay(&*p, case, Some(f), &opts, "shrunk failing case"));
    }
    if let Some((case, f, path)) = regress_failure {
        // a saved regression case fails again: report it (its file is the replay)
        failures.insert(0, (case.clone(), f.clone()));
        violation = Some((case, f));
        replay_path = Some(path);
    }

    // evidence
    let mut samples = total.first.clone();
    samples.extend(total.reservoir.clone());
    if samples.is_empty() {
        samples.push(json!({"note": "no sample recorded"}));
    }
    let mut coverage = json!({
        "evaluations": total.evaluations,
        "distinct_nontrivial": total.distinct_nontrivial(),
        "rule": p.rule(),
        "samples": samples,
        "classes": total.classes,
        "skipped": total.skipped,
        "observed_max": total.maxima,
        "tolerances": p.tolerances(),
        "proptest_cases": total_cases,
        "shards": nshards,
        "exhaustive": p.exhaustive(opts.tier),
        "known_finding_hits": total.known_hits,
        "regression_cases_replayed": regress_replayed,
    });
    if let (Some(o), Value::Object(extra)) = (coverage.as_object_mut(), post_evidence) {
        for (k, v) in extra {
            o.insert(k, v);
        }
    }
    if let (Some(o), Value::Object(extra)) = (coverage.as_object_mut(), p.extra_evidence(opts.tier)) {
        for (k, v) in extra {
            o.insert(k, v);
        }
    }
    if let Some((case, f)) = &violation {
        coverage["violation"] = json!({"case": case, "failure": f, "replay": replay_path.as_ref().map(|p| p.display().to_string())});
    }
    if child.is_some() {
        coverage["nt_hashes"] = json!(total.nt_set.iter().copied().collect::<Vec<u64>>());
    }
    let ev = json!({
        "property_id": p.id(),
        "tier": opts.tier.name(),
        "seed": user_seed,
        "level": "exploration",
        "coverage": coverage,
        "assumptions": p.assumptions(),
        "wall_s": (wall * 1000.0).round() / 1000.0,
        "violations": failures.len(),
    });
    let evdir = out_dir().join("evidence");
    let _ = std::fs::create_dir_all(&evdir);
    std::fs::write(evdir.join(format!("{}.json", p.id())), serde_json::to_string_pretty(&ev).unwrap() + "\n").unwrap();

    for k in known.iter() {
        let hits = total.known_hits.get(&k.signature).copied().unwrap_or(0);
        println!("KNOWN-FINDING: property={} {} (signature {}; {} generated cases hit it and were excluded)", p.id(), k.what, k.signature, hits);
    }
    println!(
        "{} {} seed={} evaluations={} distinct_nontrivial={} wall={:.1}s violations={}",
        p.id(),
        opts.tier.name(),
        opts.seed,
        total.evaluations,
        total.distinct_nontrivial(),
        wall,
        failures.len()
    );
    if !total.maxima.is_empty() {
        println!("  observed_max: {}", serde_json::to_string(&total.maxima).unwrap());
    }
    if !infra.is_empty() {
        for i in &infra {
            eprintln!("INFRA: {}", i);
        }
        if violation.is_none() {
            return 2;
        }
    }
    if let Some((case, f)) = violation {
        println!("  failing case: {}", serde_json::to_string(&case).unwrap());
        println!("  signature: {}", f.signature);
        println!("  expected: {}", f.expected);
        println!("  observed: {}", f.observed);
        println!("VIOLATION property={} replay={}", p.id(), replay_path.unwrap().display());
        return 1;
    }
    0
}

fn confirm_hang(id: &str, path: &std::path::Path, bound: Duration) -> bool {
    let exe = match std::env::current_exe() {
        Ok(e) => e,
        Err(_) => return false,
    };
    let mut child = match std::process::Command::new(exe)
        .arg(id)
        .arg("--replay")
        .arg(path)
        .env("VERIF_NO_WATCHDOG", "1")
        .stdout(std::process::Stdio::null())
        .stderr(std::process::Stdio::null())
        .spawn()
    {
        Ok(c) => c,
        Err(_) => return false,
    };
    let t = Instant::now();
    loop {
        match child.try_wait() {
            Ok(Some(_)) => return false,
            Ok(None) => {
                if t.elapsed() > bound {
                    let _ = child.kill();
                    let _ = child.wait();
                    return true;
                }
                std::thread::sleep(Duration::from_millis(100));
            }
            Err(_) => return false,
        }
    }
}

#[allow(clippy::too_many_arguments)]
fn run_shard<P: Prop>(
    p: &P,
    tier: Tier,
    seed: u64,
    shard: usize,
    nshards: usize,
    cases: u64,
    known: &[KnownFinding],
    slots: Arc<Vec<Slot>>,
    slot_index: usize,
) -> ShardResult<P::Case> {
    let sseed = mix(&[seed, str_hash(p.id()), shard as u64]);
    let mut stats = Stats::new(sseed);
    let watch = p.watchdog().is_some() && std::env::var("VERIF_NO_WATCHDOG").is_err();
    if watch {
        MY_SLOT.with(|m| *m.borrow_mut() = Some((slots, slot_index)));
    }
    // 1. enumerated part
    if let Err((case, f)) = p.enumerate(tier, shard, nshards, &mut stats) {
        if let Some(k) = known_match(known, &f) {
            *stats.known_hits.entry(k.signature.clone()).or_insert(0) += 1;
        } else {
            return ShardResult { stats, failure: Some((case, f)), infra: None };
        }
    }
    if cases == 0 {
        return ShardResult { stats, failure: None, infra: None };
    }
    // 2. generated part
    let strategy = p.strategy(tier);
    let cfg = Config {
        cases: cases.min(u32::MAX as u64) as u32,
        rng_seed: RngSeed::Fixed(sseed),
        failure_persistence: None,
        max_shrink_iters: p.max_shrink_iters(),
        max_shrink_time: 0,
        max_global_rejects: 1 << 20,
        max_local_rejects: 1 << 20,
        verbose: 0,
        ..Config::default()
    };
    let mut runner = TestRunner::new(cfg);
    let stats_cell = RefCell::new(stats);
    let failed = Cell::new(false);
    let last_failure: RefCell<Option<Failure>> = RefCell::new(None);
    let res = runner.run(&strategy, |case: P::Case| {
        let mut st = stats_cell.borrow_mut();
        st.frozen = failed.get();
        if watch {
            watch_begin(&case);
        }
        let r = catch(|| p.check(&case, &mut st));
        if watch {
            watch_end();
        }
        let r = match r {
            Ok(r) => r,
            Err(panic) => Err(Failure::new(format!("harness-or-library panic: {}", panic), "no panic", panic.clone())),
        };
        match r {
            Ok(()) => Ok(()),
            Err(f) => {
                if let Some(k) = known_match(known, &f) {
                    if !st.frozen {
                        *st.known_hits.entry(k.signature.clone()).or_insert(0) += 1;
                    }
                    return Ok(());
                }
                failed.set(true);
                st.frozen = true;
                let msg = f.signature.clone();
                *last_failure.borrow_mut() = Some(f);
                Err(TestCaseError::fail(msg))
            }
        }
    });
    let mut stats = stats_cell.into_inner();
    stats.frozen = true;
    match res {
        Ok(()) => {
            stats.frozen = false;
            crate::props::common::drain_route_counts(&mut stats);
            ShardResult { stats, failure: None, infra: None }
        }
        Err(TestError::Fail(_, case)) => {
            // re-evaluate the shrunk case to get its own failure description
            let f = match catch(|| p.check(&case, &mut stats)) {
                Ok(Err(f)) => f,
                Err(panic) => Failure::new(format!("harness-or-library panic: {}", panic), "no panic", panic),
                Ok(Ok(())) => last_failure
                    .borrow()
                    .clone()
                    .unwrap_or_else(|| Failure::new("non-reproducible", "failure reproduces", "shrunk case passed on re-evaluation")),
            };
            stats.frozen = false;
            ShardResult { stats, failure: Some((case, f)), infra: None }
        }
        Err(TestError::Abort(r)) => {
            stats.frozen = false;
            ShardResult { stats, failure: None, infra: Some(format!("proptest aborted: {}", r)) }
        }
    }
}

/// Replays one saved case without proptest. Exit code as for run_prop.
pub fn replay_prop<P: Prop>(p: P, path: &str) -> i32 {
    let s = match std::fs::read_to_string(path) {
        Ok(s) => s,
        Err(e) => {
            eprintln!("cannot read {}: {}", path, e);
            return 2;
        }
    };
    let rf: ReplayFile = match serde_json::from_str(&s) {
        Ok(r) => r,
        Err(e) => {
            eprintln!("cannot parse {}: {}", path, e);
            return 2;
        }
    };
    if rf.property != p.id() {
        eprintln!("replay file is for {}, not {}", rf.property, p.id());
        return 2;
    }
    let case: P::Case = match serde_json::from_value(rf.case) {
        Ok(c) => c,
        Err(e) => {
            eprintln!("cannot decode case: {}", e);
            return 2;
        }
    };
    if let Err(e) = p.self_test() {
        eprintln!("INFRA: oracle self-test failed: {}", e);
        return 2;
    }
    let bound = if std::env::var("VERIF_NO_WATCHDOG").is_ok() { None } else { p.watchdog() };
    let p = Arc::new(p);
    let (tx, rx) = std::sync::mpsc::channel();
    {
        let p = p.clone();
        let case = case.clone();
        std::thread::Builder::new()
            .stack_size(64 << 20)
            .spawn(move || {
                let mut st = Stats::new(0);
                let r = catch(|| p.check(&case, &mut st));
                let _ = tx.send(r);
            })
            .unwrap();
    }
    let r = match bound {
        Some(b) => match rx.recv_timeout(b) {
            Ok(r) => r,
            Err(_) => {
                println!("replay: no result within {:?}", b);
                println!("VIOLATION property={} replay={}", p.id(), path);
                let _ = std::io::stdout().flush();
                std::process::exit(1);
            }
        },
        None => rx.recv().unwrap(),
    };
    let r = match r {
        Ok(r) => r,
        Err(panic) => Err(Failure::new(format!("harness-or-library panic: {}", panic), "no panic", panic)),
    };
    match r {
        Ok(()) => {
            println!("replay {}: property {} holds on this case", path, p.id());
            0
        }
        Err(f) => {
            println!("replay {}: {}", path, serde_json::to_string(&case).unwrap());
            println!("  signature: {}", f.signature);
            println!("  expected: {}", f.expected);
            println!("  observed: {}", f.observed);
            println!("VIOLATION property={} replay={}", p.id(), path);
            1
        }
    }
}

/// Helper for enumerations: evaluates one enumerated case, turning a panic (of the library or of the check)
/// into a failure of that case instead of tearing the shard down.
pub fn guarded<C: Clone + Serialize + Send + 'static>(case: &C, f: impl FnOnce() -> Result<(), Failure>) -> Result<(), (C, Failure)> {
    watch_begin(case);
    let r = catch(f);
    watch_end();
    match r {
        Ok(Ok(())) => Ok(()),
        Ok(Err(fl)) => Err((case.clone(), fl)),
        Err(p) => Err((case.clone(), Failure::new(format!("harness-or-library panic: {}", p), "no panic", p))),
    }
}

/// Helper for enumerations: contiguous chunk [lo,hi) of 0..n for a shard.
pub fn chunk(n: u64, shard: usize, nshards: usize) -> (u64, u64) {
    let per = n / nshards as u64;
    let rem = n % nshards as u64;
    let s = shard as u64;
    let lo = s * per + s.min(rem);
    let hi = lo + per + if s < rem { 1 } else { 0 };
    (lo, hi)
}

pub fn boxed<S: Strategy + 'static>(s: S) -> BoxedStrategy<S::Value> {
    s.boxed()
}
