//! C10 Nearest-latitude and portion-of-night fallbacks follow their stated formulas.

use chrono::NaiveDate;
use islamic_prayer_times::Prayer;
use proptest::prelude::*;
use serde::{Deserialize, Serialize};
use serde_json::json;

use super::common::*;
use crate::engine::{Failure, Prop, Stats, Tier, F};
use crate::gen::{self, circ_diff, ParamSpec, Site, Times, PRAYER_NAMES};

pub struct C10;

#[derive(Clone, Debug, Hash, PartialEq, Eq, Serialize, Deserialize)]
pub struct Case {
    pub site: Site,
    pub spec: ParamSpec,
    pub date: NaiveDate,
}

const POLICIES: [u8; 10] = [
    gen::P_NL_ALL,
    gen::P_NL_FI_ALWAYS,
    gen::P_NL_FI_INV,
    gen::P_7N_ALWAYS,
    gen::P_7N_INV,
    gen::P_7D_ALWAYS,
    gen::P_7D_INV,
    gen::P_ANGLE,
    gen::P_MIN_ALWAYS,
    gen::P_MIN_INV,
];
const TOL: i64 = 3;
const SIX: [(Prayer, usize); 6] =
    [(Prayer::Fajr, 1), (Prayer::Shurooq, 2), (Prayer::Dhuhr, 3), (Prayer::Asr, 4), (Prayer::Maghrib, 5), (Prayer::Isha, 6)];

fn expect_time(
    got: &Times,
    p: Prayer,
    i: usize,
    want_s: f64,
    what: &str,
    ctx: &dyn Fn() -> String,
    st: &mut Stats,
) -> Result<(), Failure> {
    match got[&p] {
        Ok(g) => {
            let w = want_s.rem_euclid(86400.0);
            let gs = gen::secs(g.time) as f64;
            let mut d = (gs - w).abs();
            if d > 43200.0 {
                d = 86400.0 - d;
            }
            st.max("deviation_from_formula_s", d);
            if d > TOL as f64 + 0.5 {
                return Err(Failure::new(
                    format!("formula:{}:{}", what, PRAYER_NAMES[i]),
                    format!("{} = {} (+-{} s) by the stated formula ({})", PRAYER_NAMES[i], hms(w as i64), TOL, what),
                    ctx(),
                ));
            }
            if !g.extreme {
                return Err(Failure::new(
                    format!("replaced-not-flagged:{}:{}", what, PRAYER_NAMES[i]),
                    format!("replaced {} flagged extreme", PRAYER_NAMES[i]),
                    ctx(),
                ));
            }
            Ok(())
        }
        Err(()) => Err(Failure::new(
            format!("formula:{}:{}:not-reported", what, PRAYER_NAMES[i]),
            format!("{} = {} by the stated formula", PRAYER_NAMES[i], hms(want_s as i64)),
            ctx(),
        )),
    }
}

impl Prop for C10 {
    type Case = Case;
    fn id(&self) -> &'static str {
        "C10"
    }
    fn cases(&self, tier: Tier) -> u64 {
        tier.pick(800_000, 20_000_000)
    }
    fn strategy(&self, _tier: Tier) -> BoxedStrategy<Case> {
        let plat = prop_oneof![4 => -60.0..=60.0f64, 1 => Just(48.5), 1 => prop_oneof![Just(60.0), Just(-60.0), Just(0.0), Just(-48.5)]];
        let spec = (gen::pick(&gen::NAMED_METHODS), gen::pick(&POLICIES), plat, 1.0..=120.0f64, 1.0..=120.0f64, any::<bool>()).prop_map(
            |(method, policy, plat, fi, ii, set_iv)| {
                let mut method = method;
                if policy == gen::P_MIN_INV && method >= 7 {
                    method = gen::ANGLE_METHODS[(method as usize) % 6];
                }
                let mut s = ParamSpec::plain(method);
                s.policy = policy;
                s.policy_lat = F(plat);
                if policy == gen::P_MIN_ALWAYS || policy == gen::P_MIN_INV {
                    // the minutes-from-maghrib policies take their amounts from the Fajr/Isha intervals
                    if set_iv || policy == gen::P_MIN_INV {
                        s.fajr_interval = Some(F(fi));
                    }
                    if s.intervals().1 == 0.0 {
                        s.isha_interval = Some(F(ii));
                    }
                }
                s
            },
        );
        // 'invalid' variants and AngleBased only act on days with a missing time: for them most of the mass is put,
        // by construction, at 47-60 deg in the local summer half-year (where Fajr/Isha disappear)
        (spec, gen::date(), 1600..=2399i32, 0.0..1.0f64, any::<bool>(), 0u8..10, gen::latitude(60.0), 47.0..=60.0f64)
            .prop_flat_map(|(spec, date, year, u, south, kind, lat_any, lat_hi)| {
                let acts_only_when_missing = gen::policy_is_invalid_kind(spec.policy) || spec.policy == gen::P_ANGLE;
                let (lat, date) = if acts_only_when_missing && kind < 8 {
                    let lat = if south { -lat_hi } else { lat_hi };
                    let centre = if south { gen::ymd(year, 12, 21) } else { gen::ymd(year, 6, 21) };
                    (lat, gen::clamp_date(centre + chrono::Duration::days((u * 150.0) as i64 - 75)))
                } else if kind < 3 {
                    (if south { -lat_hi } else { lat_hi }, date)
                } else {
                    (lat_any, date)
                };
                // a tenth of the nearest-latitude cases: substitute latitude within 1e-6 .. 0.05 deg of the site's own
                let mut spec = spec;
                if kind == 9 && matches!(spec.policy, gen::P_NL_ALL | gen::P_NL_FI_ALWAYS | gen::P_NL_FI_INV) {
                    // (u below 0.1: exactly the site's own latitude)
                    let d = if u < 0.1 { 0.0 } else { 10f64.powf(-6.0 + 4.7 * u) };
                    spec.policy_lat = F((lat + if south { d } else { -d }).clamp(-60.0, 60.0));
                }
                gen::site_lat(Just(lat).boxed(), 1.0).prop_map(move |site| Case { site, spec: spec.clone(), date })
            })
            .boxed()
    }
    fn check(&self, c: &Case, st: &mut Stats) -> Result<(), Failure> {
        st.eval();
        let pol = c.spec.policy;
        prime(&c.site, &c.spec, c.date, None, prime_selector(&c.site, c.date));
        let got = compute(&c.site, &c.spec, c.date, None);
        let mut cs = c.spec.clone();
        cs.policy = gen::P_NONE;
        if pol == gen::P_MIN_INV {
            cs.fajr_interval = Some(F(0.0));
            cs.isha_interval = Some(F(0.0));
        }
        let conv = compute(&c.site, &cs, c.date, None);
        let (Some(sh), Some(dh), Some(mg)) = (t(&conv, Prayer::Shurooq), t(&conv, Prayer::Dhuhr), t(&conv, Prayer::Maghrib)) else {
            st.skip("shurooq_or_maghrib_missing");
            return Ok(());
        };
        if !(sh < dh && dh < mg) {
            st.skip("shurooq_dhuhr_maghrib_not_in_clock_order_(civil_day_seam)");
            return Ok(());
        }
        let ctx = || format!("policy {}: {} | conventional: {}", gen::POLICY_NAMES[pol as usize], gen::fmt_times(&got), gen::fmt_times(&conv));
        let (fa, ia, _) = c.spec.angles();
        let (fi, ii, _) = c.spec.intervals();
        let (sh, mg) = (sh as f64, mg as f64);
        let day = mg - sh;
        let night = 86400.0 - day;
        let some_missing = SIX.iter().any(|(p, _)| conv[p].is_err());
        let fajr_missing = conv[&Prayer::Fajr].is_err();
        let isha_missing = conv[&Prayer::Isha].is_err();
        let mut applied = false;
        // result-Shurooq / result-Maghrib (own ones unless the policy replaces all prayers)
        let r_sh = t(&got, Prayer::Shurooq).map(|x| x as f64);
        let r_mg = t(&got, Prayer::Maghrib).map(|x| x as f64);
        match pol {
            gen::P_7N_ALWAYS | gen::P_7N_INV | gen::P_7D_ALWAYS | gen::P_7D_INV => {
                let always = pol == gen::P_7N_ALWAYS || pol == gen::P_7D_ALWAYS;
                let p7 = if pol == gen::P_7N_ALWAYS || pol == gen::P_7N_INV { night / 7.0 } else { day / 7.0 };
                let what = if pol == gen::P_7N_ALWAYS || pol == gen::P_7N_INV { "seventh-of-night" } else { "seventh-of-day" };
                if always || fajr_missing {
                    let want = if fi != 0.0 { sh - fi * 60.0 } else { sh - p7 };
                    expect_time(&got, Prayer::Fajr, 1, want, what, &ctx, st)?;
                    applied = true;
                }
                if always || isha_missing {
                    let want = if ii != 0.0 { mg + ii * 60.0 } else { mg + p7 };
                    expect_time(&got, Prayer::Isha, 6, want, what, &ctx, st)?;
                    applied = true;
                }
            }
            gen::P_ANGLE => {
                if some_missing {
                    let wf = if fi != 0.0 { sh - fi * 60.0 } else { sh - fa / 60.0 * night };
                    let wi = if ii != 0.0 { mg + ii * 60.0 } else { mg + ia / 60.0 * night };
                    expect_time(&got, Prayer::Fajr, 1, wf, "angle-based", &ctx, st)?;
                    expect_time(&got, Prayer::Isha, 6, wi, "angle-based", &ctx, st)?;
                    applied = true;
                }
            }
            gen::P_MIN_ALWAYS => {
                expect_time(&got, Prayer::Fajr, 1, sh - fi * 60.0, "minutes-from-maghrib", &ctx, st)?;
                expect_time(&got, Prayer::Isha, 6, mg + ii * 60.0, "minutes-from-maghrib", &ctx, st)?;
                applied = true;
            }
            gen::P_MIN_INV => {
                if fajr_missing {
                    expect_time(&got, Prayer::Fajr, 1, sh - fi * 60.0, "minutes-from-maghrib", &ctx, st)?;
                    applied = true;
                }
                if isha_missing {
                    expect_time(&got, Prayer::Isha, 6, mg + ii * 60.0, "minutes-from-maghrib", &ctx, st)?;
                    applied = true;
                }
            }
            gen::P_NL_ALL | gen::P_NL_FI_ALWAYS | gen::P_NL_FI_INV => {
                // conventional times at the substitute latitude, same longitude, elevation, offset and date
                let mut s2 = c.site;
                s2.lat = c.spec.policy_lat;
                let sub = compute(&s2, &cs, c.date, None);
                let sub_ctx = || format!("{} | at substitute latitude {}: {}", ctx(), c.spec.policy_lat.0, gen::fmt_times(&sub));
                if pol == gen::P_NL_ALL {
                    for (p, i) in [(Prayer::Shurooq, 2usize), (Prayer::Asr, 4), (Prayer::Maghrib, 5)] {
                        match sub[&p] {
                            Ok(w) => expect_time(&got, p, i, gen::secs(w.time) as f64, "nearest-latitude", &sub_ctx, st)?,
                            Err(()) => {
                                if got[&p].is_ok() {
                                    return Err(Failure::new(
                                        format!("formula:nearest-latitude:{}:reported-though-missing-at-substitute", PRAYER_NAMES[i]),
                                        "the substitute latitude's (missing) entry",
                                        sub_ctx(),
                                    ));
                                }
                            }
                        }
                    }
                    if let Ok(w) = sub[&Prayer::Dhuhr] {
                        expect_time(&got, Prayer::Dhuhr, 3, gen::secs(w.time) as f64, "nearest-latitude", &sub_ctx, st)?;
                    }
                    applied = true;
                }
                let always = pol != gen::P_NL_FI_INV;
                for (p, i, missing, iv, anchor, sign) in [
                    (Prayer::Fajr, 1usize, fajr_missing, fi, if pol == gen::P_NL_ALL { r_sh } else { Some(sh) }, -1.0),
                    (Prayer::Isha, 6usize, isha_missing, ii, if pol == gen::P_NL_ALL { r_mg } else { Some(mg) }, 1.0),
                ] {
                    if !(always || missing) {
                        continue;
                    }
                    if iv != 0.0 {
                        // interval-defined: keeps Shurooq - interval / Maghrib + interval of the *result*
                        let Some(a) = anchor else { continue };
                        // flagged only if the substitute latitude actually provided a value
                        if sub[&p].is_ok() {
                            expect_time(&got, p, i, a + sign * iv * 60.0, "nearest-latitude+interval", &sub_ctx, st)?;
                            applied = true;
                        }
                        continue;
                    }
                    if let Ok(w) = sub[&p] {
                        expect_time(&got, p, i, gen::secs(w.time) as f64, "nearest-latitude", &sub_ctx, st)?;
                        applied = true;
                    }
                }
                if pol != gen::P_NL_ALL {
                    // exactly those two: the other four stay the site's own
                    for (p, i) in [(Prayer::Shurooq, 2usize), (Prayer::Dhuhr, 3), (Prayer::Asr, 4), (Prayer::Maghrib, 5)] {
                        if got[&p] != conv[&p] {
                            return Err(Failure::new(
                                format!("formula:nearest-latitude-fajr-isha:changed:{}", PRAYER_NAMES[i]),
                                "the Fajr/Isha variants take exactly those two from the substitute latitude",
                                sub_ctx(),
                            ));
                        }
                    }
                }
            }
            _ => unreachable!(),
        }
        // sanity of the reference itself: differences are small positive quantities
        let _ = circ_diff;
        if applied {
            st.nontrivial(c);
            st.class(POLICY_CLASS[pol as usize]);
            if fi != 0.0 || ii != 0.0 {
                st.class("interval_defined_fajr_or_isha_kept");
            }
            if (c.spec.policy_lat.0 < 0.0) != (c.site.lat.0 < 0.0) && matches!(pol, gen::P_NL_ALL | gen::P_NL_FI_ALWAYS | gen::P_NL_FI_INV) {
                st.class("substitute_latitude_in_other_hemisphere");
            }
        } else {
            st.class("policy_did_not_apply");
        }
        if st.want_sample() {
            st.sample(json!({"case": c, "result": gen::fmt_times(&got), "conventional": gen::fmt_times(&conv)}));
        }
        Ok(())
    }
    fn post(&self, tier: Tier, seed: u64) -> (serde_json::Value, Option<(Case, Failure)>) {
        if tier != Tier::Thorough {
            return (json!({"fuzz": "not part of the quick tier"}), None);
        }
        crate::fuzzrun::campaign("c10_formulas", seed, 600_000, 96, crate::decode::c10_case, fuzz_check)
    }
    fn rule(&self) -> String {
        "generated (site |lat|<=60 with extra mass in 46-60, GMT within 1 h of lon/15, 8 named methods, the 10 policies named in the statement, substitute latitude in [-60,60] of either sign, Fajr/Isha intervals in [1,120] for the minutes-from-maghrib policies, date mixture). Expected values are built from the conventional run (and a conventional run at the substitute latitude) with the formulas of the statement. A tenth of the nearest-latitude cases use a substitute latitude equal to or within 1e-6..0.05 deg of the site's own; every case is preceded by a priming call with a sibling input. Non-trivial = the policy actually applied (an 'always' variant, or an 'invalid'/angle-based one on a day with a missing time); distinct by hash of the case".into()
    }
    fn assumptions(&self) -> Vec<String> {
        vec![
            "cases whose conventional Shurooq < Dhuhr < Maghrib are not in clock order (civil-day seam) are skipped and counted".into(),
            "night = 24 h - (Maghrib - Shurooq), computed from truncated seconds; tolerance 3 s as stated".into(),
            "an interval-defined Fajr/Isha is expected at result-Shurooq - interval / result-Maghrib + interval".into(),
            "minutes-from-maghrib 'invalid' consumes the intervals as fallback amounts, so its conventional reference zeroes them (C08)".into(),
        ]
    }
    fn tolerances(&self) -> serde_json::Value {
        json!({"deviation_from_formula_s": TOL})
    }
}

const POLICY_CLASS: [&str; 15] = [
    "applied_None",
    "applied_AngleBased",
    "applied_NearestLatitudeAllPrayersAlways",
    "applied_NearestLatitudeFajrIshaAlways",
    "applied_NearestLatitudeFajrIshaInvalid",
    "applied_NearestGoodDayAllPrayersAlways",
    "applied_NearestGoodDayFajrIshaInvalid",
    "applied_SeventhOfNightFajrIshaAlways",
    "applied_SeventhOfNightFajrIshaInvalid",
    "applied_SeventhOfDayFajrIshaAlways",
    "applied_SeventhOfDayFajrIshaInvalid",
    "applied_HalfOfNightFajrIshaAlways",
    "applied_HalfOfNightFajrIshaInvalid",
    "applied_MinutesFromMaghribFajrIshaAlways",
    "applied_MinutesFromMaghribFajrIshaInvalid",
];

/// entry point of the libFuzzer target `c10_formulas` (and of the re-check of its artifacts)
pub fn fuzz_check(c: &Case, st: &mut Stats) -> Result<(), Failure> {
    C10.check(c, st)
}
