use chrono::Timelike;
use islamic_prayer_times::prayer_times::verif_hooks;
use ipt_verif::gen::{ParamSpec, PRAYERS};
fn main() {
    let mut bad = 0u64; let mut tot = 0u64;
    for mode in 1u8..4 {
        let mut spec = ParamSpec::plain(5); spec.rounding = mode; let params = spec.build();
        let mut s0 = ParamSpec::plain(5); s0.rounding = 0; let p0 = s0.build();
        for minute in 1..1440u32 {
            let base = minute as f64 / 60.0;
            let mut h = base;
            for _u in 0..6 {
                h = f64::from_bits(h.to_bits() - 1);
                let pr = PRAYERS[1];
                let un = verif_hooks::hour_to_time(&p0, pr, h);
                let ro = verif_hooks::hour_to_time(&params, pr, h);
                let us = un.num_seconds_from_midnight() as i64; let rs = ro.num_seconds_from_midnight() as i64;
                tot += 1;
                let d = (rs - us).rem_euclid(86400);
                if d >= 60 && d < 86400 - 60 { bad += 1; if bad < 6 { println!("mode {} hour {:?} unrounded {} rounded {}", mode, h, un, ro); } }
            }
        }
    }
    println!("bad {} of {}", bad, tot);
}
