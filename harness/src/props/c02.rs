//! C02 Shurooq and Maghrib are sunrise and sunset of the Sun's upper limb.

use chrono::NaiveDate;
use islamic_prayer_times::Prayer;
use proptest::prelude::*;
use serde::{Deserialize, Serialize};
use serde_json::json;

use super::common::*;
use crate::engine::{Failure, Prop, Stats, Tier};
use crate::gen::{self, fwd, ParamSpec, Site, WeatherSpec};
use crate::oracle::ephem;

pub struct C02;

#[derive(Clone, Debug, Hash, PartialEq, Eq, Serialize, Deserialize)]
pub struct Case {
    pub site: Site,
    pub method: u8,
    pub weather: Option<WeatherSpec>,
    pub date: NaiveDate,
}

const H0: f64 = -0.833;
const TOL_ALT: f64 = 0.05;
const SEAM_S: i64 = 900;

impl Prop for C02 {
    type Case = Case;
    fn id(&self) -> &'static str {
        "C02"
    }
    fn cases(&self, tier: Tier) -> u64 {
        tier.pick(1_000_000, 24_000_000)
    }
    fn strategy(&self, _tier: Tier) -> BoxedStrategy<Case> {
        let site_date = prop_oneof![
            8 => (gen::site(60.0, 6.0), gen::date()),
            1 => gen::ra_wrap_site_date(60.0, 6.0, 12.0),
        ];
        (site_date, 0u8..9, gen::weather_opt()).prop_map(|((site, date), method, weather)| Case { site, method, weather, date }).boxed()
    }
    fn self_test(&self) -> Result<(), String> {
        ephem::self_test()
    }
    fn check(&self, c: &Case, st: &mut Stats) -> Result<(), Failure> {
        st.eval();
        let spec = ParamSpec::plain(c.method);
        prime(&c.site, &spec, c.date, c.weather, prime_selector(&c.site, c.date));
        let times = compute(&c.site, &spec, c.date, c.weather);
        let (lat, lon, gmt) = (c.site.lat.0, c.site.lon.0, c.site.gmt.0);
        let Some(dh) = t(&times, Prayer::Dhuhr) else {
            return Err(Failure::new("dhuhr-invalid", "Dhuhr reported", gen::fmt_times(&times)));
        };
        let sh = t(&times, Prayer::Shurooq);
        let mg = t(&times, Prayer::Maghrib);
        let mut checked = 0;
        for (name, tt) in [("shurooq", sh), ("maghrib", mg)] {
            let Some(tt) = tt else { continue };
            if tt < SEAM_S || tt > 86400 - SEAM_S {
                st.skip("event_within_15min_of_midnight_seam");
                continue;
            }
            let alt = ephem::altitude(ephem::jd_at(c.date, gmt, tt as f64 + 0.5), lat, lon);
            let r = (alt - H0).abs();
            st.max("abs_altitude_residual_deg", r);
            if c.weather.is_some() {
                st.max("abs_altitude_residual_deg_with_weather", r);
            }
            if !(r <= TOL_ALT) {
                return Err(Failure::new(
                    format!("limb-altitude:{}", name),
                    format!("Sun's centre at {} +- {} deg geometric altitude at the reported {}", H0, TOL_ALT, name),
                    format!("{} {} -> altitude {:.4} deg (residual {:+.4})", name, hms(tt), alt, alt - H0),
                ));
            }
            checked += 1;
        }
        // (b) order around Dhuhr
        if let (Some(sh), Some(mg)) = (sh, mg) {
            let b = fwd(dh, sh);
            let a = fwd(mg, dh);
            if !(b > 0 && b < 43200 && a > 0 && a < 43200) {
                return Err(Failure::new(
                    "order-around-dhuhr:circular",
                    "Shurooq within (0,12h) before and Maghrib within (0,12h) after Dhuhr",
                    format!("Shurooq {} Dhuhr {} Maghrib {}", hms(sh), hms(dh), hms(mg)),
                ));
            }
            // literal clock order when the oracle says the civil day contains sunrise < noon < sunset with 15 min to spare
            let d0 = ephem::dec0(c.date, gmt);
            let cosh = ((H0.to_radians()).sin() - lat.to_radians().sin() * d0.to_radians().sin())
                / (lat.to_radians().cos() * d0.to_radians().cos());
            if cosh.abs() < 1.0 {
                let half = cosh.acos().to_degrees() * 240.0;
                // oracle noon: one Newton step from 12h local mean time
                let guess = 43200.0 + (gmt * 15.0 - lon) * 240.0;
                let ha = ephem::hour_angle(ephem::jd_at(c.date, gmt, guess), lon);
                let noon = guess - ha * 240.0;
                if noon - half > 900.0 && noon + half < 86400.0 - 900.0 && noon > 0.0 && noon < 86400.0 {
                    st.class("literal_clock_order_checked");
                    if !(sh < dh && dh < mg) {
                        return Err(Failure::new(
                            "order-around-dhuhr:clock",
                            "Shurooq < Dhuhr < Maghrib on the clock (oracle: all three inside the civil day)",
                            format!("Shurooq {} Dhuhr {} Maghrib {}", hms(sh), hms(dh), hms(mg)),
                        ));
                    }
                } else {
                    st.skip("literal_clock_order_not_applicable_event_wraps_civil_day");
                }
            }
        }
        // (c) weather moves only Shurooq/Maghrib (and what derives from them), by seconds
        if c.weather.is_some() {
            let base = compute(&c.site, &spec, c.date, None);
            let (fi, ii, _) = spec.intervals();
            for p in gen::PRAYERS {
                let (a, b) = (times.get(&p), base.get(&p));
                let (ta, tb) = (t(&times, p), t(&base, p));
                if ta.is_some() != tb.is_some() {
                    return Err(Failure::new(
                        format!("weather-changes-validity:{:?}", p),
                        "same validity with and without weather",
                        format!("with weather: {} | without: {}", gen::fmt_times(&times), gen::fmt_times(&base)),
                    ));
                }
                let (Some(ta), Some(tb)) = (ta, tb) else { continue };
                match p {
                    Prayer::Shurooq | Prayer::Maghrib => {
                        let d = gen::circ_diff(ta, tb).abs();
                        st.max("weather_shift_s", d as f64);
                        if d >= 60 {
                            return Err(Failure::new(
                                format!("weather-shift-too-large:{:?}", p),
                                "weather moves Shurooq/Maghrib by less than 60 s",
                                format!("{:?} {} with weather vs {} without", p, hms(ta), hms(tb)),
                            ));
                        }
                    }
                    Prayer::Isha if ii != 0.0 => {
                        let (Some(ma), Some(mb)) = (t(&times, Prayer::Maghrib), t(&base, Prayer::Maghrib)) else { continue };
                        if (fwd(ta, ma) - fwd(tb, mb)).abs() > 1 {
                            return Err(Failure::new("weather-moves-interval-isha", "Isha - Maghrib unchanged by weather", format!("{} vs {}", fwd(ta, ma), fwd(tb, mb))));
                        }
                    }
                    Prayer::Fajr | Prayer::Imsaak if fi != 0.0 => {}
                    _ => {
                        if a != b {
                            return Err(Failure::new(
                                format!("weather-moves-underived-time:{:?}", p),
                                format!("{:?} identical with and without weather", p),
                                format!("{:?} {} with weather vs {} without", p, hms(ta), hms(tb)),
                            ));
                        }
                    }
                }
            }
            st.class("weather_pair_checked");
        }
        if checked == 2 {
            st.nontrivial(c);
        }
        if lat < 0.0 {
            st.class("southern_hemisphere");
        }
        if lat.abs() >= 55.0 {
            st.class("abs_lat_ge_55");
        }
        if st.want_sample() {
            st.sample(json!({"case": c, "result": gen::fmt_times(&times)}));
        }
        Ok(())
    }
    fn rule(&self) -> String {
        "generated (site |lat|<=60, GMT offset within 6 h of lon/15, method, weather none/range/corners/default, date mixture). One case in 9 has its local midnight within 12 minutes of the RA wrap; every case is preceded by a priming call with a sibling input. Non-trivial = Shurooq and Maghrib both reported and neither within 15 min of the civil-day seam, i.e. both altitude clauses were evaluated; distinct by hash of the case".into()
    }
    fn assumptions(&self) -> Vec<String> {
        vec![
            "oracle ephemeris as in C01 (accuracy ~0.01 deg)".into(),
            "an event reported within 15 min of 00:00 is not pinned to an instant (the same event is 24 h apart as an instant on either side of the seam); counted under skipped".into(),
            "literal clock order Shurooq<Dhuhr<Maghrib asserted only when the oracle places sunrise and sunset inside the civil day with 15 min to spare; the circular order (each within 12 h of Dhuhr on the right side) is asserted always".into(),
        ]
    }
    fn tolerances(&self) -> serde_json::Value {
        json!({"abs_altitude_residual_deg": TOL_ALT, "weather_shift_s": 60})
    }
}
