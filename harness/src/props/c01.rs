//! C01 Dhuhr is the instant of local apparent solar noon.

use chrono::{Datelike, NaiveDate};
use islamic_prayer_times::Prayer;
use proptest::prelude::*;
use serde::{Deserialize, Serialize};
use serde_json::json;

use super::common::*;
use crate::engine::{chunk, guarded, Failure, Prop, Stats, Tier, F};
use crate::gen::{self, ParamSpec, Site};
use crate::oracle::ephem;

pub struct C01;

#[derive(Clone, Debug, Hash, PartialEq, Eq, Serialize, Deserialize)]
pub struct Case {
    pub site: Site,
    pub method: u8,
    /// 0 = no policy, otherwise a Fajr/Isha-only policy (never touches Dhuhr)
    pub policy: u8,
    pub date: NaiveDate,
}

const TOL_S: f64 = 10.0;

impl Prop for C01 {
    type Case = Case;
    fn id(&self) -> &'static str {
        "C01"
    }
    fn cases(&self, tier: Tier) -> u64 {
        tier.pick(1_000_000, 12_000_000)
    }
    fn strategy(&self, _tier: Tier) -> BoxedStrategy<Case> {
        let policy = prop_oneof![
            9 => Just(0u8),
            1 => prop_oneof![Just(gen::P_NGD_FI_INV), Just(gen::P_7N_INV), Just(gen::P_ANGLE), Just(gen::P_NL_FI_INV), Just(gen::P_7N_ALWAYS)],
        ];
        let site_date = prop_oneof![
            5 => (gen::site(90.0, 6.0), gen::date()),
            1 => gen::ra_wrap_site_date(90.0, 6.0, 12.0),
        ];
        (site_date, 0u8..9, policy).prop_map(|((site, date), method, policy)| Case { site, method, policy, date }).boxed()
    }
    fn self_test(&self) -> Result<(), String> {
        ephem::self_test()
    }
    fn check(&self, c: &Case, st: &mut Stats) -> Result<(), Failure> {
        st.eval();
        let mut spec = ParamSpec::plain(c.method);
        spec.policy = c.policy;
        prime(&c.site, &spec, c.date, None, prime_selector(&c.site, c.date));
        let times = compute(&c.site, &spec, c.date, None);
        let Some(dh) = t(&times, Prayer::Dhuhr) else {
            return Err(Failure::new("dhuhr-invalid", "Dhuhr is always reported", gen::fmt_times(&times)));
        };
        let jd = ephem::jd_at(c.date, c.site.gmt.0, dh as f64 + 0.5);
        let ha_s = ephem::hour_angle(jd, c.site.lon.0) * 240.0;
        st.max("abs_hour_angle_s", ha_s.abs());
        let wrap = gen::is_ra_wrap_window(c.date);
        if wrap {
            st.max("abs_hour_angle_s_in_ra_wrap_window", ha_s.abs());
        }
        if !(ha_s.abs() <= TOL_S) {
            let sig = if wrap { "dhuhr-hour-angle:ra-wrap-window" } else { "dhuhr-hour-angle" };
            return Err(Failure::new(
                sig,
                format!("|hour angle| <= {} s of time at the reported Dhuhr (independent ephemeris)", TOL_S),
                format!("Dhuhr {} -> hour angle {:+.2} s", hms(dh), ha_s),
            ));
        }
        // classification
        let mismatch = (c.site.gmt.0 - c.site.lon.0 / 15.0).abs();
        let mut hot = false;
        if wrap {
            st.class("ra_wrap_window_mar17_24");
            hot = true;
            let dt = (ephem::jd0(c.date, c.site.gmt.0) - gen::ra_wrap_jd(c.date.year())).abs() * 1440.0;
            if dt < 12.0 || (dt - 1440.0).abs() < 12.0 {
                st.class("local_midnight_within_12min_of_ra_wrap_(or_a_day_off)");
            }
        }
        if gen::is_leap_window(c.date) {
            st.class("feb25_mar3");
            hot = true;
        }
        if c.date.month() == 2 && c.date.day() == 29 {
            st.class("feb29");
        }
        if gen::is_year_end_window(c.date) {
            st.class("year_end");
            hot = true;
        }
        if c.site.lat.0.abs() >= 66.56 {
            st.class("polar_latitude");
            hot = true;
        }
        if c.site.lat.0.abs() == 90.0 {
            st.class("pole_exactly");
        }
        if mismatch >= 3.0 {
            st.class("gmt_mismatch_ge_3h");
            hot = true;
        }
        if hot {
            st.nontrivial(c);
        }
        let b = (ha_s.abs().floor() as usize).min(10);
        st.class(HIST[b]);
        if st.want_sample() {
            st.sample(json!({"case": c, "dhuhr": hms(dh), "oracle_hour_angle_s": (ha_s * 100.0).round() / 100.0}));
        }
        Ok(())
    }
    fn enumerate(&self, tier: Tier, shard: usize, nshards: usize, st: &mut Stats) -> Result<(), (Case, Failure)> {
        // grid: 24 meridians (15 deg steps, matching GMT offset) x dates.
        // quick: every Mar 17..24 of every year 1600..2399; thorough: every date 1600..2399.
        let lats = [30.0, -33.5, 0.0, 51.5, -12.0, 64.0, 21.4, -45.0, 78.0, 40.0, -25.0, 10.0];
        let mut eval = |date: NaiveDate, k: i64, st: &mut Stats| -> Result<(), (Case, Failure)> {
            let lon = (k - 12) as f64 * 15.0;
            let gmt = (k - 12) as f64;
            let lat = lats[((date.num_days_from_ce() as i64 + k).rem_euclid(lats.len() as i64)) as usize];
            let c = Case {
                site: Site { lat: F(lat), lon: F(lon.clamp(-180.0, 180.0)), elev: F(0.0), gmt: F(gmt.clamp(-12.0, 12.0)) },
                method: 5,
                policy: 0,
                date,
            };
            guarded(&c, || self.check(&c, st))
        };
        match tier {
            Tier::Quick => {
                let (lo, hi) = chunk(800, shard, nshards);
                for y in lo..hi {
                    let yy = 1600 + y as i32;
                    for d in 17..=24u32 {
                        let date = gen::ymd(yy, 3, d);
                        for k in 0..24 {
                            eval(date, k, st)?;
                        }
                    }
                    // calendar seams: Jan 1-2, Feb 28 - Mar 1 (Feb 29 when it exists), Dec 31
                    let mut seams = vec![gen::ymd(yy, 1, 1), gen::ymd(yy, 1, 2), gen::ymd(yy, 2, 28), gen::ymd(yy, 3, 1), gen::ymd(yy, 12, 31)];
                    if gen::is_leap(yy) {
                        seams.push(gen::ymd(yy, 2, 29));
                    }
                    for date in seams {
                        for k in (0..24).step_by(2) {
                            eval(date, k + (yy as i64 % 2), st)?;
                        }
                    }
                }
            }
            Tier::Thorough => {
                let (lo, hi) = chunk(gen::n_dates() as u64, shard, nshards);
                for i in lo..hi {
                    let date = gen::date_from_index(i as i64);
                    for k in 0..24 {
                        eval(date, k, st)?;
                    }
                }
            }
        }
        Ok(())
    }
    fn rule(&self) -> String {
        "generated (site incl. poles, GMT offset within 6 h of lon/15, method, date from the hot-window mixture) plus a grid of 24 meridians x dates (quick: every Mar 17-24 plus Jan 1-2, Feb 28/29, Mar 1 and Dec 31 of 1600-2399; thorough: every date 1600-2399). Every case is a real evaluation against the ephemeris; non-trivial = in a hot class (RA-wrap window, Feb 25-Mar 3, year end, |lat| >= 66.56, GMT mismatch >= 3 h); distinct by hash of the case One generated case in 6 has its local midnight within 12 minutes of the RA wrap (site constructed from the oracle); every case is preceded by a priming call with a sibling input on the same thread.".into()
    }
    fn assumptions(&self) -> Vec<String> {
        vec![
            "oracle: Meeus ch.25 low-accuracy Sun + IAU-1982 sidereal time, integer JDN; accuracy ~0.01 deg (2.4 s of time); validated by Meeus example 25.a at start-up".into(),
            "UT == TT (Delta-T ignored), as in the library; effect < 0.4 s of hour angle".into(),
            "reported time is a truncated second; evaluated at t + 0.5 s".into(),
        ]
    }
    fn tolerances(&self) -> serde_json::Value {
        json!({"abs_hour_angle_s": TOL_S})
    }
    fn extra_evidence(&self, tier: Tier) -> serde_json::Value {
        json!({"grid": tier.pick("24 meridians x every Mar 17-24 of 1600-2399 (153,600 evaluations) + 12 meridians x Jan 1-2, Feb 28/29, Mar 1, Dec 31 of every year (~50,000)", "24 meridians x every date 1600-2399 (7,012,776 evaluations)")})
    }
}

const HIST: [&str; 11] = [
    "abs_ha_0_1s", "abs_ha_1_2s", "abs_ha_2_3s", "abs_ha_3_4s", "abs_ha_4_5s", "abs_ha_5_6s", "abs_ha_6_7s", "abs_ha_7_8s",
    "abs_ha_8_9s", "abs_ha_9_10s", "abs_ha_ge_10s",
];
