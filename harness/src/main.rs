//! ipt-verif: property-based checks of islamic-prayer-times (see /verif/DESIGN.md).
//!
//! usage: ipt-verif <ID> <quick|thorough>
//!        ipt-verif <ID> --replay <file>
//! env:   VERIF_SEED (default 1), VERIF_DIR (default /verif)

use ipt_verif::engine::{self, RunOpts, Tier};
use ipt_verif::props;

fn main() {
    engine::install_panic_recorder();
    let args: Vec<String> = std::env::args().collect();
    if args.len() < 3 {
        eprintln!("usage: {} <ID> <quick|thorough> | <ID> --replay <file>", args[0]);
        std::process::exit(2);
    }
    let id = args[1].to_uppercase();
    let seed: u64 = std::env::var("VERIF_SEED").ok().and_then(|s| s.trim().parse().ok()).unwrap_or(1);
    let code = if args[2] == "--replay" {
        if args.len() < 4 {
            eprintln!("--replay needs a file");
            std::process::exit(2);
        }
        props::replay(&id, &args[3])
    } else {
        let tier = match args[2].as_str() {
            "quick" => Tier::Quick,
            "thorough" => Tier::Thorough,
            other => {
                eprintln!("unknown tier {}", other);
                std::process::exit(2);
            }
        };
        props::run(&id, RunOpts { tier, seed })
    };
    use std::io::Write;
    let _ = std::io::stdout().flush();
    std::process::exit(code);
}
