//! libFuzzer target for C18: first byte selects (type, route), the rest is the number bits / text /
//! JSON / embedded composite field; the three-route oracle is inside the target.
#![no_main]
use libfuzzer_sys::fuzz_target;

fuzz_target!(|data: &[u8]| {
    let case = ipt_verif::decode::c18_case(data);
    let mut st = ipt_verif::engine::Stats::new(0);
    if let Err(f) = ipt_verif::props::c18::check_case(&case, &mut st) {
        panic!("C18 violation candidate: {} | {:?}", f.signature, case);
    }
});
