//! C05 The daily schedule is complete and chronologically ordered.

use chrono::NaiveDate;
use islamic_prayer_times::Prayer;
use proptest::prelude::*;
use serde::{Deserialize, Serialize};
use serde_json::json;

use super::common::*;
use crate::engine::{Failure, Prop, Stats, Tier, F};
use crate::gen::{self, fwd, ParamSpec, Site};

pub struct C05;

#[derive(Clone, Debug, Hash, PartialEq, Eq, Serialize, Deserialize)]
pub struct Case {
    pub site: Site,
    pub spec: ParamSpec,
    pub date: NaiveDate,
    /// boundary-directed: if some time of the case lies within 20 minutes of midnight, move the longitude (bisected to
    /// adjacent f64 values) to where that time crosses 24:00 -> 00:00 and evaluate a fan of +-8 ulps around the crossing
    #[serde(default)]
    pub boundary_lon: bool,
    /// boundary-directed: Some(k) = move the latitude (bisected to adjacent f64 values) onto the existence boundary of
    /// Fajr (k = 0), Isha (1) or Imsaak (2) in the summer hemisphere and evaluate the schedule at the last latitude where
    /// the time exists, at 1e-12..1e-4 deg inside and at 0..1e-3 deg beyond it (where it must simply be Invalid - or, if
    /// reported, still be in order)
    #[serde(default)]
    pub boundary_lat: Option<u8>,
}

impl C05 {
    fn existence_boundary_directed(&self, c: &Case, k: u8, st: &mut Stats) -> Result<(), Failure> {
        let mut plain = c.clone();
        plain.boundary_lat = None;
        plain.spec.policy = gen::P_NONE;
        let (fa, ia, ima) = plain.spec.angles();
        let (fi, ii, _) = plain.spec.intervals();
        let (prayer, angle) = match k {
            0 if fi == 0.0 => (Prayer::Fajr, fa),
            1 if ii == 0.0 => (Prayer::Isha, ia),
            2 if fi == 0.0 => (Prayer::Imsaak, fa + ima),
            _ => {
                st.skip("existence_boundary_entry_is_interval_defined");
                return Ok(());
            }
        };
        let d0 = crate::oracle::ephem::dec0(c.date, c.site.gmt.0);
        let sign = if d0 >= 0.0 { 1.0 } else { -1.0 };
        let phi_b = 90.0 - angle - d0.abs();
        if !(20.0..=59.7).contains(&phi_b) {
            st.skip("existence_boundary_latitude_outside_20_to_59.7");
            return Ok(());
        }
        let valid = |lat: f64| -> bool {
            let mut s = c.site;
            s.lat = F(lat);
            t(&compute(&s, &plain.spec, c.date, None), prayer).is_some()
        };
        let (mut lo, mut hi) = (sign * (phi_b - 0.3), sign * (phi_b + 0.3).min(60.0));
        if !valid(lo) || valid(hi) {
            st.skip("existence_boundary_bracket_not_found");
            return Ok(());
        }
        for _ in 0..80 {
            let mid = 0.5 * (lo + hi);
            if mid == lo || mid == hi {
                break;
            }
            if valid(mid) {
                lo = mid;
            } else {
                hi = mid;
            }
        }
        let mut lats: Vec<(f64, &str)> = Vec::new();
        for d in [0.0, 1e-12, 1e-10, 1e-8, 1e-7, 1e-6, 1e-5, 1e-4] {
            lats.push((lo - sign * d, "at-existence-boundary"));
        }
        for d in [0.0, 1e-9, 1e-8, 1e-7, 1e-6, 1e-5, 1e-4, 1e-3] {
            if (hi + sign * d).abs() <= 60.0 {
                lats.push((hi + sign * d, "beyond-existence-boundary"));
            }
        }
        for (lat, tag) in lats {
            let mut c2 = plain.clone();
            c2.site.lat = F(lat);
            crate::engine::catch(|| self.check(&c2, st))
                .map_err(|pn| Failure::new(format!("panic-at-existence-boundary:{}", pn), "a complete, ordered schedule", format!("{} at latitude {:?}", pn, lat)))?
                .map_err(|mut f| {
                    f.signature = format!("{}:{}", f.signature, tag);
                    f.observed = format!("{} [latitude {:?}, next to where {:?} stops existing]", f.observed, lat, prayer);
                    f
                })?;
        }
        st.class("boundary_directed_existence_boundary_done");
        Ok(())
    }
    fn boundary_directed(&self, c: &Case, st: &mut Stats) -> Result<(), Failure> {
        let mut plain = c.clone();
        plain.boundary_lon = false;
        self.check(&plain, st)?;
        let times = compute(&c.site, &c.spec, c.date, None);
        // the entry closest to midnight
        let mut best: Option<(Prayer, i64)> = None;
        for p in gen::PRAYERS {
            if let Some(x) = t(&times, p) {
                let d = gen::circ_diff(x, 0).abs();
                if best.map_or(true, |(_, bd)| d < bd) {
                    best = Some((p, d));
                }
            }
        }
        let Some((p, d)) = best else { return Ok(()) };
        if d > 1200 {
            st.skip("boundary_directed_no_time_within_20min_of_midnight");
            return Ok(());
        }
        // a longitude shift of x degrees moves every time by -240 x seconds
        let after = |lon: f64| -> Option<bool> {
            let mut s = c.site;
            s.lon = F(lon);
            t(&compute(&s, &c.spec, c.date, None), p).map(|x| x < 43200)
        };
        let (mut lo, mut hi) = ((c.site.lon.0 - 5.2).max(-180.0), (c.site.lon.0 + 5.2).min(180.0));
        let (Some(a), Some(b)) = (after(lo), after(hi)) else {
            st.skip("boundary_directed_bracket_not_found");
            return Ok(());
        };
        if a == b {
            st.skip("boundary_directed_bracket_not_found");
            return Ok(());
        }
        for _ in 0..80 {
            let mid = 0.5 * (lo + hi);
            if mid == lo || mid == hi {
                break;
            }
            match after(mid) {
                Some(x) if x == a => lo = mid,
                Some(_) => hi = mid,
                None => {
                    st.skip("boundary_directed_bracket_not_found");
                    return Ok(());
                }
            }
        }
        for k in -8i64..=8 {
            for base in [lo, hi] {
                let lon = f64::from_bits((base.to_bits() as i64 + k) as u64);
                if !(-180.0..=180.0).contains(&lon) {
                    continue;
                }
                let mut c2 = plain.clone();
                c2.site.lon = F(lon);
                crate::engine::catch(|| self.check(&c2, st))
                    .map_err(|pn| Failure::new(format!("panic-at-midnight-wrap:{}", pn), "a complete, ordered schedule", format!("{} at longitude {:?}", pn, lon)))?
                    .map_err(|mut f| {
                        f.signature = format!("{}:at-midnight-wrap", f.signature);
                        f.observed = format!("{} [longitude {:?}: {:?} within {} f64 steps of crossing midnight]", f.observed, lon, p, k.abs());
                        f
                    })?;
                // the crossing entry itself must sit at midnight (not an hour or a day away). Only for entries that are a
                // continuous function of the longitude modulo 24 h: Shurooq/Maghrib (and what is derived from them by an
                // interval) legitimately switch to the neighbouring day's event at the civil-day seam.
                let (fi, ii, _) = c.spec.intervals();
                let continuous = match p {
                    Prayer::Shurooq | Prayer::Maghrib => false,
                    Prayer::Isha => ii == 0.0,
                    Prayer::Fajr | Prayer::Imsaak => fi == 0.0,
                    _ => true,
                };
                if !continuous || flagged(&times, p) == Some(true) {
                    continue;
                }
                let mut s = c.site;
                s.lon = F(lon);
                if let Some(x) = t(&compute(&s, &c.spec, c.date, None), p) {
                    if gen::circ_diff(x, 0).abs() > 61 {
                        return Err(Failure::new(
                            "order:time-jumps-at-midnight-wrap",
                            format!("{:?} within a minute of midnight at the longitude where it crosses midnight", p),
                            format!("{:?} = {} at longitude {:?}", p, hms(x), lon),
                        ));
                    }
                }
            }
        }
        st.class("boundary_directed_midnight_crossing_done");
        Ok(())
    }
}

impl Prop for C05 {
    type Case = Case;
    fn id(&self) -> &'static str {
        "C05"
    }
    fn cases(&self, tier: Tier) -> u64 {
        tier.pick(600_000, 10_000_000)
    }
    fn strategy(&self, _tier: Tier) -> BoxedStrategy<Case> {
        let spec = (
            gen::pick(&gen::NAMED_METHODS),
            prop_oneof![2 => Just(None), 1 => (9.0..=21.0f64, 9.0..=21.0f64).prop_map(Some)],
            0u8..4,
            prop_oneof![2 => Just(gen::P_NONE), 1 => Just(gen::P_NGD_FI_INV)],
        )
            .prop_map(|(method, custom, rounding, policy)| {
                let mut s = ParamSpec::plain(method);
                if let Some((f, i)) = custom {
                    // custom angles replace the method's angle definition; an interval-defined Isha keeps its interval
                    s.fajr_angle = Some(F(f));
                    // an interval-defined Isha keeps its interval; in half of those cases the (then unused) Isha angle is
                    // set as well - the reported Isha is still Maghrib + n and nothing may be flagged
                    if s.intervals().1 == 0.0 || (f.to_bits() >> 3) & 1 == 0 {
                        s.isha_angle = Some(F(i));
                    }
                }
                s.rounding = rounding;
                s.policy = policy;
                s
            });
        let site_date = prop_oneof![10 => (gen::site(60.0, 6.0), gen::date()), 1 => gen::ra_wrap_site_date(60.0, 6.0, 12.0)];
        (site_date, spec, prop_oneof![15 => Just(false), 1 => Just(true)], prop_oneof![24 => Just(None), 1 => (0u8..3).prop_map(Some)])
            .prop_map(|((site, date), spec, boundary_lon, boundary_lat)| Case { site, spec, date, boundary_lon: boundary_lon && boundary_lat.is_none(), boundary_lat })
            .boxed()
    }
    fn check(&self, c: &Case, st: &mut Stats) -> Result<(), Failure> {
        if let Some(k) = c.boundary_lat {
            return self.existence_boundary_directed(c, k, st);
        }
        if c.boundary_lon {
            return self.boundary_directed(c, st);
        }
        st.eval();
        prime(&c.site, &c.spec, c.date, None, prime_selector(&c.site, c.date));
        let times = compute(&c.site, &c.spec, c.date, None);
        if !has_all_keys(&times) {
            return Err(Failure::new("missing-entries", "exactly the 7 entries", gen::fmt_times(&times)));
        }
        let Some(dh) = t(&times, Prayer::Dhuhr) else {
            return Err(Failure::new("dhuhr-invalid", "Dhuhr reported", gen::fmt_times(&times)));
        };
        if c.spec.policy == gen::P_NONE {
            for p in gen::PRAYERS {
                if flagged(&times, p) == Some(true) {
                    return Err(Failure::new(
                        format!("flagged-without-policy:{:?}", p),
                        "nothing flagged extreme with no extreme-latitude policy",
                        gen::fmt_times(&times),
                    ));
                }
            }
        }
        let slack = if c.spec.rounding == 0 { 0 } else { 60 };
        // conventional (Ok and unflagged) entries, as offsets before/after Dhuhr
        let conv = |p: Prayer| -> Option<i64> {
            match times[&p] {
                Ok(pt) if !pt.extreme => Some(gen::secs(pt.time)),
                _ => None,
            }
        };
        let before: Vec<(&str, Option<i64>)> = vec![
            ("Imsaak", conv(Prayer::Imsaak).map(|x| fwd(dh, x))),
            ("Fajr", conv(Prayer::Fajr).map(|x| fwd(dh, x))),
            ("Shurooq", conv(Prayer::Shurooq).map(|x| fwd(dh, x))),
        ];
        let after: Vec<(&str, Option<i64>)> = vec![
            ("Asr", conv(Prayer::Asr).map(|x| fwd(x, dh))),
            ("Maghrib", conv(Prayer::Maghrib).map(|x| fwd(x, dh))),
            ("Isha", conv(Prayer::Isha).map(|x| fwd(x, dh))),
        ];
        let fail = |sig: &str, exp: &str| -> Failure {
            Failure::new(format!("order:{}", sig), exp.to_string(), gen::fmt_times(&times))
        };
        let mut comparable = 1; // Dhuhr
        for (name, v) in before.iter().chain(after.iter()) {
            if let Some(v) = v {
                comparable += 1;
                if *v > 43200 + slack {
                    return Err(fail(&format!("{}-more-than-12h-from-dhuhr", name), "each conventional time within 12 h of Dhuhr on its side"));
                }
            }
        }
        // Imsaak <= Fajr < Shurooq < Dhuhr
        if let (Some(im), Some(fj)) = (before[0].1, before[1].1) {
            if !(im >= fj) {
                return Err(fail("imsaak-after-fajr", "Imsaak <= Fajr"));
            }
        }
        if let (Some(fj), Some(sh)) = (before[1].1, before[2].1) {
            if !(fj > sh) {
                return Err(fail("fajr-not-before-shurooq", "Fajr < Shurooq"));
            }
        }
        if let (Some(im), Some(sh)) = (before[0].1, before[2].1) {
            if !(im > sh) {
                return Err(fail("imsaak-not-before-shurooq", "Imsaak < Shurooq"));
            }
        }
        for (name, v) in before.iter() {
            if let Some(v) = v {
                if !(*v > 0) {
                    return Err(fail(&format!("{}-not-before-dhuhr", name), "strictly before Dhuhr"));
                }
            }
        }
        // Dhuhr < Asr < Maghrib < Isha
        for (name, v) in after.iter() {
            if let Some(v) = v {
                if !(*v > 0) {
                    return Err(fail(&format!("{}-not-after-dhuhr", name), "strictly after Dhuhr"));
                }
            }
        }
        if let (Some(a), Some(m)) = (after[0].1, after[1].1) {
            if !(a < m) {
                return Err(fail("asr-not-before-maghrib", "Asr < Maghrib"));
            }
        }
        if let (Some(m), Some(i)) = (after[1].1, after[2].1) {
            if !(m < i) {
                return Err(fail("maghrib-not-before-isha", "Maghrib < Isha"));
            }
        }
        if let (Some(a), Some(i)) = (after[0].1, after[2].1) {
            if !(a < i) {
                return Err(fail("asr-not-before-isha", "Asr < Isha"));
            }
        }
        if comparable >= 5 {
            st.nontrivial(c);
        }
        if let Some(i) = conv(Prayer::Isha) {
            if i < dh {
                st.class("isha_past_midnight_on_clock");
            }
        }
        let (fi, ii, _) = c.spec.intervals();
        if fi != 0.0 || ii != 0.0 {
            st.class("interval_method");
        }
        if c.site.lat.0 < 0.0 {
            st.class("southern_hemisphere");
        }
        st.class(["rounding_none", "rounding_normal", "rounding_special", "rounding_aggressive"][c.spec.rounding as usize]);
        if c.spec.policy != gen::P_NONE {
            st.class("default_policy");
            if gen::PRAYERS.iter().any(|p| flagged(&times, *p) == Some(true)) {
                st.class("default_policy_flagged_something");
            }
        }
        if gen::PRAYERS.iter().any(|p| times[p].is_err()) {
            st.class("some_entry_invalid");
        }
        if st.want_sample() {
            st.sample(json!({"case": c, "result": gen::fmt_times(&times)}));
        }
        Ok(())
    }
    fn rule(&self) -> String {
        "generated (site |lat|<=60, GMT within 6 h, one of the 8 named methods optionally with custom angles in [9,21], 4 rounding modes, policy None (2/3) or the library default (1/3), date mixture). One case in 16 is boundary-directed (longitude bisected to where the entry nearest midnight crosses 24:00, +-8 ulps); one in 11 has its local midnight within 12 minutes of the RA wrap; every case is preceded by a priming call with a sibling input. Non-trivial = at least 5 comparable (valid, unflagged) entries incl. Dhuhr; distinct by hash of the case".into()
    }
    fn assumptions(&self) -> Vec<String> {
        vec![
            "order is measured as time before/after that day's Dhuhr on the 24 h circle (a reported time carries no date)".into(),
            "under a rounding mode each time moves by < 60 s (C11), so the 12 h bound gets 60 s of slack".into(),
        ]
    }
}
