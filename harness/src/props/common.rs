//! Helpers shared by the prayer-time properties.

use chrono::NaiveDate;
use islamic_prayer_times::{prayer_times_dt, Prayer};

use crate::gen::{secs, ParamSpec, Site, Times, WeatherSpec, PRAYERS};

pub fn compute(site: &Site, spec: &ParamSpec, date: NaiveDate, weather: Option<WeatherSpec>) -> Times {
    let params = spec.build();
    prayer_times_dt(&params, site.location(), date, weather.map(|w| w.build()))
}

pub fn compute_p(site: &Site, params: &islamic_prayer_times::Params, date: NaiveDate, weather: Option<WeatherSpec>) -> Times {
    prayer_times_dt(params, site.location(), date, weather.map(|w| w.build()))
}

/// seconds after midnight of an entry, None if Invalid/missing
pub fn t(times: &Times, p: Prayer) -> Option<i64> {
    match times.get(&p) {
        Some(Ok(pt)) => Some(secs(pt.time)),
        _ => None,
    }
}
pub fn flagged(times: &Times, p: Prayer) -> Option<bool> {
    match times.get(&p) {
        Some(Ok(pt)) => Some(pt.extreme),
        _ => None,
    }
}
pub fn has_all_keys(times: &Times) -> bool {
    times.len() == 7 && PRAYERS.iter().all(|p| times.contains_key(p))
}
pub fn hms(s: i64) -> String {
    let s = s.rem_euclid(86400);
    format!("{:02}:{:02}:{:02}", s / 3600, (s / 60) % 60, s % 60)
}

/// History independence ("the library is a pure function of its arguments"): before a case is evaluated, the library
/// is called once, on the same thread, with a *sibling* input that differs from the case in exactly one argument
/// (chosen by `selector`: GMT offset / longitude / latitude / elevation each either far away or by a tiny amount,
/// date +40 d, date -1 d, method/school, substitute latitude/weather). The sibling's result is discarded. Any state a change to the library keeps between
/// calls (a memo keyed on a subset of the inputs, a "last day" cache, a static) then shows up as a wrong value of the
/// case itself, which the property's independent oracle catches.
pub fn prime(site: &Site, spec: &ParamSpec, date: NaiveDate, weather: Option<WeatherSpec>, selector: u64) {
    use crate::engine::F;
    let mut s2 = *site;
    let mut sp2 = spec.clone();
    let mut d2 = date;
    let mut w2 = weather;
    match selector % 12 {
        8 => s2.gmt = F(if site.gmt.0 <= 0.0 { site.gmt.0 + 0.004 } else { site.gmt.0 - 0.004 }),
        9 => s2.lon = F(if site.lon.0 <= 0.0 { site.lon.0 + 0.03 } else { site.lon.0 - 0.03 }),
        10 => s2.lat = F(if site.lat.0 <= 0.0 { site.lat.0 + 0.03 } else { site.lat.0 - 0.03 }),
        11 => s2.elev = F(if site.elev.0 <= 0.0 { site.elev.0 + 1.0 } else { site.elev.0 - 1.0 }),
        0 => s2.gmt = F(if site.gmt.0 <= 0.0 { (site.gmt.0 + 9.0).min(12.0) } else { (site.gmt.0 - 9.0).max(-12.0) }),
        1 => {
            let mut l = site.lon.0 + 97.0;
            if l > 180.0 {
                l -= 360.0;
            }
            s2.lon = F(l);
        }
        2 => s2.lat = F((-0.7 * site.lat.0 + 11.0).clamp(-90.0, 90.0)),
        3 => d2 = crate::gen::clamp_date(date + chrono::Duration::days(40)),
        4 => d2 = crate::gen::clamp_date(date - chrono::Duration::days(1)),
        5 => s2.elev = F(if site.elev.0 > 1500.0 { 0.0 } else { 3000.0 }),
        6 => {
            sp2.method = (spec.method + 3) % 9;
            sp2.school = Some(if spec.school_k() == 1.0 { 2 } else { 1 });
        }
        _ => {
            sp2.policy_lat = F(-spec.policy_lat.0);
            w2 = match weather {
                None => Some(WeatherSpec { pressure: F(600.0), temperature: F(-30.0) }),
                Some(_) => None,
            };
        }
    }
    let r = compute(&s2, &sp2, d2, w2);
    std::hint::black_box(&r);
}

/// selector for `prime` derived from the case itself (so that the run stays a pure function of the generated case)
pub fn prime_selector(site: &Site, date: NaiveDate) -> u64 {
    use chrono::Datelike;
    crate::engine::mix(&[site.lat.0.to_bits(), site.lon.0.to_bits(), date.num_days_from_ce() as u64])
}
