//! libFuzzer target for C10: bytes -> (site, named method, policy with substitute latitude, optional intervals,
//! rounding, date) over the domain of the proptest generator -> the same oracle-backed check as the generated part.
//! A failure aborts; the artifact is re-checked by the release harness before it is reported.
#![no_main]
use libfuzzer_sys::fuzz_target;

fuzz_target!(|data: &[u8]| {
    let case = ipt_verif::decode::c10_case(data);
    let mut st = ipt_verif::engine::Stats::new(0);
    if let Err(f) = ipt_verif::props::c10::fuzz_check(&case, &mut st) {
        panic!("C10 violation candidate: {} | {:?}", f.signature, case);
    }
});
