#!/usr/bin/env python3
"""Regenerates /verif/MANIFEST.json from the table below (single source of truth for the per-check text)."""
import json, subprocess

HOOK_COMMIT = subprocess.run("git -C /repo log --format=%H --grep='Add verif-hooks cargo feature' | tail -1", shell=True, capture_output=True, text=True).stdout.strip()

EXPLO = "exploration"
T = {
 "C01": ("differential vs independent ephemeris (Meeus ch.25 + IAU-1982 GAST, integer JDN); proptest generators (incl. oracle-constructed sites whose local midnight is within minutes of the RA wrap, and a history-independence priming call) + enumerated date x meridian grid",
         "Generated sites/dates/methods plus a grid of 24 meridians x dates (quick: every Mar 17-24 of 1600-2399; thorough: every date 1600-2399, 7.0 M evaluations) are each compared with an ephemeris that shares no code with the library; |hour angle| <= 10 s. Sampling plus a complete date grid at fixed meridians, not a proof over all real-valued sites.",
         "oracle accuracy ~2.4 s of time; Delta-T ignored as in the library; truncated seconds evaluated at t+0.5 s", "6 C01"),
 "C02": ("differential vs independent ephemeris (altitude at the reported instant) + metamorphic weather/no-weather pairs; proptest",
         "Each generated case checks the Sun's geometric altitude at the reported Shurooq/Maghrib against -0.833 +- 0.05 deg with the independent ephemeris, the order around Dhuhr, and that weather moves only these two (and interval-derived times) by < 60 s.",
         "events within 15 min of the civil-day seam are not pinned to an instant (counted as skipped)", "6 C02"),
 "C03": ("reference model (altitude formula with oracle declination, true altitude from the ephemeris) + metamorphic monotonicity in the angle; proptest incl. boundary-directed latitudes (bisection onto the existence boundary) and a history-independence priming call",
         "Fajr/Isha/Imsaak are checked against the configured depression (0.03 deg under the date's declination, 0.5 deg instantaneous) for the 6 angle methods and custom angles in [9,21], both hemispheres and all seasons, plus monotonicity under a second, larger angle triple.",
         "date's declination = oracle declination at local 0h", "6 C03"),
 "C04": ("reference model arccot(k + tan|lat-dec|) with oracle declination + metamorphic Shafi/Hanafi pair; proptest with zenith-passage latitudes constructed from the oracle",
         "Each case is evaluated under both schools: altitude at Asr vs the shadow rule within 0.03 deg, Dhuhr < Asr < Maghrib, Hanafi strictly later; latitudes equal to the date's declination +-0.2 deg are constructed.",
         "hour angle taken from the reported Dhuhr; truncated seconds", "6 C04"),
 "C05": ("validity predicate over the 7-entry result (completeness, circular order relative to Dhuhr, 12 h bound, no flag without policy); proptest incl. boundary-directed longitudes (an entry bisected onto the midnight crossing) and latitudes (bisected onto where Fajr/Isha/Imsaak stop existing, evaluated on both sides)",
         "Generated configurations (8 methods, custom angles, 4 rounding modes, policy None/default) are checked for exactly 7 entries and the chronological order of the conventional entries measured before/after Dhuhr.",
         "order measured on the 24 h circle relative to Dhuhr; 60 s slack on the 12 h bound under rounding", "6 C05"),
 "C06": ("reference model of event existence (altitude range of the day from the oracle declination) compared with the Ok/Invalid pattern; proptest with boundary latitudes constructed from the oracle",
         "Up to 6 existence decisions per case, latitudes up to +-89.5 with atoms within 1 deg of every existence boundary; both directions (fabricated / withheld) are checked; decisions within the stated 0.05 deg band are exempt and counted.",
         "event exists iff |lat+dec|-90 <= h <= 90-|lat-dec| with the oracle declination at local 0h", "6 C06"),
 "C07": ("crash/hang freedom over the full parameter product under catch_unwind + watchdog; proptest incl. boundary-directed minute offsets (a prayer bisected onto the midnight wrap, +-8 ulps, 4 rounding modes) and libFuzzer target c07_nopanic (thorough)",
         "The full product of sites (incl. poles), 9 methods x 15 policies x 4 roundings, angles [0,25], intervals [0,180], offsets [-1500,1500], weather and dates is sampled; any panic, missing entry or (confirmed) hang is a violation.",
         "hang = > 30 s and reproduced in a fresh process; release build without overflow checks", "6 C07"),
 "C08": ("metamorphic: same call with and without the policy (conventional reference), per-entry equality/flag predicates; proptest incl. boundary-directed latitudes (polar-day limit) and a polar-night-edge class with interval-defined Fajr/Isha; libFuzzer target c08_policy with the same oracle (thorough)",
         "Each generated (site, method, policy) is compared with the conventional result: Fajr/Isha-only policies leave the other four untouched, 'invalid' policies are the identity on valid Fajr/Isha and on all-valid days, unflagged entries equal conventional ones.",
         "interval-consuming policies use a reference with zeroed intervals; 'conventionally valid' is taken literally (Ok in the no-policy result), also for interval-defined times on the polar-night edge (a dedicated class)", "6 C08"),
 "C09": ("reference model (independent outward day search through the public API with no policy); proptest incl. boundary-directed latitudes (closest good day at the edge of existence) + fixed-site whole-year sweeps",
         "The fallback value must equal, to the second, the conventional Fajr/Isha of the closest good date found by an independent search (earlier date on ties); generated cases are weighted to local summer and the first/last days of the year in both hemispheres; whole years are swept at fixed sites.",
         "a date is good when the no-policy API reports both Fajr and Isha", "6 C09"),
 "C10": ("reference model: expected values built from the conventional run (and one at the substitute latitude) with the formulas of the statement; proptest and libFuzzer target c10_formulas with the same oracle (thorough)",
         "For the 10 policies of the statement the replaced Fajr/Isha (all six for nearest-latitude all-prayers) are compared with the stated formulas within 3 s and must be flagged extreme; interval-defined times must keep their definition.",
         "cases whose Shurooq < Dhuhr < Maghrib are not in clock order are skipped (counted)", "6 C10"),
 "C11": ("reference model (integer rounding function): exhaustive enumeration of mode x prayer key x second of day through the hour_to_time hook + generated end-to-end comparison of each mode with RoundSeconds::None; proptest",
         "Engine 1 enumerates all 4 x 6 x 86,400 (mode, prayer key, second) points (exhaustive over that space; sub-second fraction, +-24 h wrap and offset vary per point); engine 2 compares the 7 entries under each mode with the None-mode output end to end, including validity and flags; a second-boundary sweep (every minute x {+0,+1,+2,+29,+30,+31,+59 s} x -4..4 ulps x mode) holds the conversion to its rule on hour values next to every whole second.",
         "hook called only with the 6 keys the public API uses; Imsaak covered end to end", "6 C11"),
 "C12": ("metamorphic: pairs of calls differing in one parameter, exact-shift and no-crosstalk predicates; proptest",
         "One perturbation per case (offset on one key, Fajr/Isha/Imsaak interval, school, angle +-1, weather), on top of optional base intervals and, in a third of the cases, an explicit base weather: the named time moves exactly as documented (+-1 s truncation) and every other entry is identical including flag and validity.",
         "offset on the Imsaak key: only 'nothing else moves' is asserted", "6 C12"),
 "C13": ("invariant over histories of consecutive dates (first/second differences on the circle); proptest histories + enumerated sweeps of consecutive triples",
         "Generated 3-30 day histories anchored at the RA wrap, year ends and leap days, plus a sweep (quick: every triple centred on Mar 16-25 of every year; thorough: every triple of 1600-2399 at 24 sites = 7.0 M days) are held to the stated second-difference bounds and the 240 s first-difference bound.",
         "bounds applied inside the quantifier's latitude bands only", "6 C13"),
 "C14": ("differential range API vs single-date API + structural validity predicate for partition; exhaustive small sub-space + proptest",
         "All (length -3..130, parts 0..64) at 3 starts are enumerated in both tiers; generated (start, length -400..2000, k 0..64) cases compare num_days, the partition structure and every entry of the range API with the single-date API.",
         "empty single part accepted for an empty range with k<2", "6 C14"),
 "C15": ("differential parallel vs sequential API under seeded schedule perturbation (delays/yields and occasional multi-second stalls injected at 9 hook points, worker-count override) with a termination watchdog; proptest in 8 processes",
         "Each generated (workers 1..64, days 0..6000, threshold, delay plan) runs the parallel API with perturbed scheduling and compares the whole map with the sequential result; the hook confirms the parallel branch was really taken. Interleavings are perturbed, not enumerated: absence for every interleaving is not established.",
         "OS scheduler not owned; the saved case with its delay plan is the reproducible unit; hang = > 60 s and reproduced", "6 C15"),
 "C16": ("differential vs independent vector bearing; proptest",
         "2 M (quick) / 100 M (thorough) generated locations incl. the Kaaba meridian/antimeridian, date line, poles' neighbourhood are compared with a vector computation within 1e-6 deg, plus range, rotation label, printed text and elevation independence.",
         "(-180,180] taken literally: -180.0 is a violation (D13); at a bearing of exactly 0 either rotation label is accepted", "6 C16"),
 "C17": ("differential vs integer tabular-calendar model; exhaustive enumeration of all 3,652,059 dates",
         "Every date 0001-01-01..9999-12-31 is converted and compared field by field (year, month, day, era, weekday, printed text) with an integer model, under catch_unwind; exhaustive over the property's whole input space on every run.",
         "chrono's proleptic Gregorian calendar trusted; oracle structure self-tested", "6 C17"),
 "C18": ("differential across the three construction routes vs generic f64 parsers + closed-range predicate; proptest (all tiers) and libFuzzer target c18_routes (thorough)",
         "Generated numbers (bounds +-1 ulp, +-0, subnormals, NaN payloads, infinities, random bits), strings and JSON documents (scalars and composites Coordinates/Weather/Location/ExtremeLatitudeMethod/Params) are fed to every route; acceptance must equal 'generic parser accepts and value in range', read-back bit-identical, never a panic.",
         "reference parsers: str::parse::<f64>, serde_json::from_str::<f64>", "6 C18"),
 "C19": ("differential binary vs library (JSON output, terminal listing) + round trip through the saved parameter file (also over pre-existing files and at boundary-directed longitudes) + rejection of invalid inputs; proptest over command lines",
         "Generated command lines are run against the repository's binary built from the current tree: -o JSON must decode to the library's result, -p then -i must reproduce byte-identical output, the listing must show the Hijri date and 7 entries per date, invalid values must exit non-zero before anything is written.",
         "start/end dates always passed; long ranges only at moderate latitudes", "6 C19"),
 "C20": ("metamorphic: (gmt+d) and (lon+15d, gmt+d) shifts; proptest",
         "Pairs of calls differing by a GMT step or a meridian step are compared on the 24 h circle: every entry moves by d h (resp. not at all) within 10 s per hour of step, validity unchanged.",
         "entries crossing the civil-day seam are skipped (counted); multi-hour steps held to 10*|d| s", "6 C20"),
}

checks = []
for pid in sorted(T):
    tech, text, note, ref = T[pid]
    checks.append({
        "property_id": pid,
        "quick_cmd": f"./check {pid} quick",
        "thorough_cmd": f"./check {pid} thorough",
        "evidence_file": f"/verif/evidence/{pid}.json",
        "replay_cmd_template": f"./check {pid} --replay {{path}}",
        "engine": "ipt-verif",
        "level_claimed": {"category": EXPLO, "text": text, "design_ref": f"DESIGN.md section {ref}"},
        "level_note": note,
        "technique": tech,
    })

m = {
 "version": 1,
 "setup_cmd": "cd /verif/harness && CARGO_NET_OFFLINE=true CARGO_TARGET_DIR=/verif/target cargo build --release --offline && CARGO_NET_OFFLINE=true CARGO_TARGET_DIR=/verif/target cargo build --release --offline --bin islamic_prayer_times --manifest-path /repo/Cargo.toml",
 "hooks": {
  "guard": "cargo feature verif-hooks (off by default)",
  "enable": "the harness crate /verif/harness path-depends on /repo with features = [\"verif-hooks\"]; ./check rebuilds it (and so the library, from /repo's working tree) on every invocation",
  "baseline_off_cmd": "cd /repo && cargo test --workspace --no-fail-fast --offline",
  "source_commits": [HOOK_COMMIT],
  "add_only": True
 },
 "engines": [
  {"name": "ipt-verif", "path": "/verif/harness", "serves_properties": sorted(T),
   "kind_free_text": "Rust binary using proptest 1.11 as a library (TestRunner, fixed seeds from VERIF_SEED, 16 shards, shrinking -> JSON replay files) plus enumerated sub-spaces; independent oracles in src/oracle"},
  {"name": "cargo-fuzz targets", "path": "/verif/harness/fuzz", "serves_properties": ["C07", "C18"],
   "kind_free_text": "libFuzzer targets with the oracle inside the target; used by the thorough tier only"}
 ],
 "checks": checks,
 "notes": "Exit codes: 0 held, 1 violation (VIOLATION line + replay file), 2 inconclusive (build failure, oracle self-test failure, unconfirmed watchdog trip, or - INFRA line - a case that does not finish within 120 s in a property for which a hang is not a violation). Known findings: /verif/known_findings.json (13 given-tree defects, all 'fixed' by fix: commits in /repo, none open). Sensitivity: /verif/sensitivity (hand-picked and automatic mutants), seeded changes: /verif/seeded, property-preserving changes that must stay silent: /verif/benign; results in DESIGN.md section 12.",
 "not_applicable": []
}
json.dump(m, open('/verif/MANIFEST.json', 'w'), indent=1)
print("wrote MANIFEST.json with", len(checks), "checks; hook commit", HOOK_COMMIT)
