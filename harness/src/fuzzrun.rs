//! Runs a cargo-fuzz (libFuzzer) campaign for the thorough tier and converts artifacts back to cases.

use std::path::{Path, PathBuf};
use std::process::Command;

use serde_json::{json, Value};

use crate::engine::{catch, splitmix, verif_dir, out_dir, Failure, Stats};

pub struct FuzzOutcome {
    pub evidence: Value,
    /// crash-*/timeout-*/oom-* artifacts written by libFuzzer
    pub artifacts: Vec<PathBuf>,
}

fn nightly_available() -> bool {
    Command::new("cargo").args(["+nightly", "fuzz", "--version"]).output().map(|o| o.status.success()).unwrap_or(false)
}

/// Writes a deterministic seed corpus: `n` pseudo-random byte strings plus the given hand-made seeds.
fn write_corpus(dir: &Path, seed: u64, n: usize, len: usize, extra: &[Vec<u8>]) {
    let _ = std::fs::remove_dir_all(dir);
    let _ = std::fs::create_dir_all(dir);
    let mut s = seed ^ 0xF00D;
    for i in 0..n {
        let mut v = Vec::with_capacity(len);
        while v.len() < len {
            s = splitmix(s);
            v.extend_from_slice(&s.to_le_bytes());
        }
        v.truncate(len);
        let _ = std::fs::write(dir.join(format!("seed{:03}", i)), &v);
    }
    for (i, e) in extra.iter().enumerate() {
        let _ = std::fs::write(dir.join(format!("hand{:03}", i)), e);
    }
}

pub fn run(target: &str, seed: u64, runs: u64, max_len: usize, extra_seeds: &[Vec<u8>], dict: Option<&str>) -> FuzzOutcome {
    let fuzz_dir = verif_dir().join("harness").join("fuzz");
    let proj_dir = verif_dir().join("harness");
    if !fuzz_dir.exists() {
        return FuzzOutcome { evidence: json!({"fuzz": "unavailable: /verif/harness/fuzz missing"}), artifacts: vec![] };
    }
    if !nightly_available() {
        return FuzzOutcome { evidence: json!({"fuzz": "unavailable: cargo +nightly fuzz not runnable here"}), artifacts: vec![] };
    }
    let work = out_dir().join("work").join("fuzz").join(target);
    let corpus = work.join("corpus");
    let arts = work.join("artifacts");
    let _ = std::fs::remove_dir_all(&arts);
    let _ = std::fs::create_dir_all(&arts);
    write_corpus(&corpus, seed, 48, max_len.min(160), extra_seeds);
    let target_dir = verif_dir().join("target").join("fuzz");
    let build = Command::new("cargo")
        .args(["+nightly", "fuzz", "build", target])
        .current_dir(&proj_dir)
        .env("CARGO_NET_OFFLINE", "true")
        .env("CARGO_TARGET_DIR", &target_dir)
        .output();
    match build {
        Ok(o) if o.status.success() => {}
        Ok(o) => {
            let tail: String = String::from_utf8_lossy(&o.stderr).lines().rev().take(6).collect::<Vec<_>>().join(" | ");
            return FuzzOutcome { evidence: json!({"fuzz": format!("unavailable: fuzz build failed: {}", tail)}), artifacts: vec![] };
        }
        Err(e) => return FuzzOutcome { evidence: json!({"fuzz": format!("unavailable: {}", e)}), artifacts: vec![] },
    }
    let mut args: Vec<String> = vec!["+nightly".into(), "fuzz".into(), "run".into(), target.into(), corpus.display().to_string(), "--".into()];
    args.push(format!("-runs={}", runs));
    args.push(format!("-seed={}", (seed % 0xFFFF_FFFE) + 1));
    args.push("-len_control=0".into());
    args.push(format!("-max_len={}", max_len));
    args.push("-timeout=30".into());
    args.push("-rss_limit_mb=4096".into());
    args.push("-print_final_stats=1".into());
    args.push(format!("-artifact_prefix={}/", arts.display()));
    if let Some(d) = dict {
        args.push(format!("-dict={}", d));
    }
    let t0 = std::time::Instant::now();
    let out = Command::new("cargo").args(&args).current_dir(&proj_dir).env("CARGO_NET_OFFLINE", "true").env("CARGO_TARGET_DIR", &target_dir).output();
    let wall = t0.elapsed().as_secs_f64();
    let (code, stderr) = match out {
        Ok(o) => (o.status.code(), String::from_utf8_lossy(&o.stderr).to_string()),
        Err(e) => return FuzzOutcome { evidence: json!({"fuzz": format!("unavailable: {}", e)}), artifacts: vec![] },
    };
    let stat = |key: &str| -> Option<u64> {
        stderr.lines().rev().find(|l| l.contains(key)).and_then(|l| l.split_whitespace().last()).and_then(|x| x.parse().ok())
    };
    let last_cov = stderr
        .lines()
        .rev()
        .find(|l| l.contains(" cov: "))
        .map(|l| l.trim().to_string())
        .unwrap_or_default();
    let mut artifacts: Vec<PathBuf> = std::fs::read_dir(&arts).map(|d| d.flatten().map(|e| e.path()).collect()).unwrap_or_default();
    artifacts.sort();
    let corpus_files = std::fs::read_dir(&corpus).map(|d| d.count()).unwrap_or(0);
    let ev = json!({"fuzz": {
        "engine": "libFuzzer via cargo-fuzz (ASan, debug assertions on)",
        "target": target,
        "requested_runs": runs,
        "executed_units": stat("stat::number_of_executed_units"),
        "new_units_added": stat("stat::new_units_added"),
        "final_corpus_files": corpus_files,
        "last_status_line": last_cov,
        "exit_code": code,
        "artifacts": artifacts.iter().map(|p| p.file_name().unwrap().to_string_lossy().to_string()).collect::<Vec<_>>(),
        "wall_s": (wall * 10.0).round() / 10.0,
        "seed_corpus": "48 pseudo-random byte strings (from VERIF_SEED) + hand-made seeds; -len_control=0",
        "note": "a libFuzzer campaign is pinned only approximately by -seed/-runs; a saved artifact is the reproducible unit and is re-checked by the release harness before it is reported",
    }});
    FuzzOutcome { evidence: ev, artifacts }
}

/// Thorough-tier campaign of a hand-decoded target plus re-check of its artifacts by this (release) process:
/// a crash artifact counts only if `check` fails on the decoded case here as well; a timeout artifact only if the
/// case does not finish within 60 s here either.
pub fn campaign<C: Clone + Send + 'static>(
    target: &str,
    seed: u64,
    default_runs: u64,
    max_len: usize,
    decode: fn(&[u8]) -> C,
    check: fn(&C, &mut Stats) -> Result<(), Failure>,
) -> (Value, Option<(C, Failure)>) {
    let runs: u64 = std::env::var("VERIF_FUZZ_RUNS").ok().and_then(|s| s.parse().ok()).unwrap_or(default_runs);
    let out = run(target, seed, runs, max_len, &[], None);
    let mut ev = out.evidence;
    let mut confirmed = None;
    let mut unconfirmed = 0;
    for a in &out.artifacts {
        let Ok(bytes) = std::fs::read(a) else { continue };
        let case = decode(&bytes);
        let c2 = case.clone();
        let (tx, rx) = std::sync::mpsc::channel();
        std::thread::spawn(move || {
            let mut st = Stats::new(0);
            let r = catch(|| check(&c2, &mut st));
            let _ = tx.send(r);
        });
        match rx.recv_timeout(std::time::Duration::from_secs(60)) {
            Ok(Ok(Ok(()))) => unconfirmed += 1,
            Ok(Ok(Err(f))) => confirmed = Some((case, f)),
            Ok(Err(p)) => confirmed = Some((case, Failure::new(format!("harness-or-library panic: {}", p), "no panic", p))),
            Err(_) => confirmed = Some((case, Failure::new("hang", "result within 60 s", "no result after 60 s (libFuzzer artifact, reproduced by the release harness)"))),
        }
        if confirmed.is_some() {
            break;
        }
    }
    if let Some(o) = ev.get_mut("fuzz").and_then(|f| f.as_object_mut()) {
        o.insert("artifacts_not_confirmed_by_release_harness".into(), json!(unconfirmed));
    }
    (ev, confirmed)
}
