//! ipt-verif: property-based checks of islamic-prayer-times (see /verif/DESIGN.md).
//!
//! usage: ipt-verif <ID> <quick|thorough>
//!        ipt-verif <ID> --replay <file>
//!        ipt-verif <ID> --fuzz-artifact <file>   (C07, C08, C10, C18: decode a libFuzzer artifact and re-check it)
//! env:   VERIF_SEED (default 1), VERIF_DIR (default /verif)

use ipt_verif::engine::{self, RunOpts, Tier};
use ipt_verif::props;

fn main() {
    engine::install_panic_recorder();
    let args: Vec<String> = std::env::args().collect();
    if args.len() < 3 {
        eprintln!("usage: {} <ID> <quick|thorough> | <ID> --replay <file>", args[0]);
        std::process::exit(2);
    }
    let id = args[1].to_uppercase();
    let seed: u64 = std::env::var("VERIF_SEED").ok().and_then(|s| s.trim().parse().ok()).unwrap_or(1);
    let code = if args[2] == "--fuzz-artifact" {
        // decode a libFuzzer artifact of this property's target, print the case and re-check it here
        let data = std::fs::read(&args[3]).unwrap_or_default();
        let mut st = engine::Stats::new(0);
        macro_rules! go {
            ($dec:path, $chk:path) => {{
                let c = $dec(&data);
                println!("case: {}", serde_json::to_string(&c).unwrap_or_default());
                match engine::catch(|| $chk(&c, &mut st)) {
                    Ok(Ok(())) => {
                        println!("holds");
                        0
                    }
                    Ok(Err(f)) => {
                        println!("signature: {}\nexpected: {}\nobserved: {}", f.signature, f.expected, f.observed);
                        1
                    }
                    Err(p) => {
                        println!("panic: {}", p);
                        1
                    }
                }
            }};
        }
        match id.as_str() {
            "C07" => go!(ipt_verif::decode::c07_case, props::c07::check_case),
            "C08" => go!(ipt_verif::decode::c08_case, props::c08::fuzz_check),
            "C10" => go!(ipt_verif::decode::c10_case, props::c10::fuzz_check),
            "C18" => go!(ipt_verif::decode::c18_case, props::c18::check_case),
            _ => {
                eprintln!("no fuzz target for {}", id);
                2
            }
        }
    } else if args[2] == "--replay" {
        if args.len() < 4 {
            eprintln!("--replay needs a file");
            std::process::exit(2);
        }
        props::replay(&id, &args[3])
    } else {
        let tier = match args[2].as_str() {
            "quick" => Tier::Quick,
            "thorough" => Tier::Thorough,
            other => {
                eprintln!("unknown tier {}", other);
                std::process::exit(2);
            }
        };
        props::run(&id, RunOpts { tier, seed })
    };
    use std::io::Write;
    let _ = std::io::stdout().flush();
    std::process::exit(code);
}
