//! Tabular (arithmetic) Islamic calendar in pure integer arithmetic (DESIGN A.4).
//! Epoch: 1 Muharram 1 AH = 0622-07-19 proleptic Gregorian (Friday epoch, civil).
//! Leap years of the 30-year cycle: 2,5,7,10,13,16,18,21,24,26,29.

/// Days from 1970-01-01 of a proleptic Gregorian civil date (Hinnant's algorithm).
pub fn days_from_civil(y: i64, m: i64, d: i64) -> i64 {
    let y = if m <= 2 { y - 1 } else { y };
    let era = if y >= 0 { y } else { y - 399 } / 400;
    let yoe = y - era * 400;
    let mp = (m + 9) % 12;
    let doy = (153 * mp + 2) / 5 + d - 1;
    let doe = yoe * 365 + yoe / 4 - yoe / 100 + doy;
    era * 146097 + doe - 719468
}

const LEAP: [bool; 31] = {
    let mut a = [false; 31];
    a[2] = true;
    a[5] = true;
    a[7] = true;
    a[10] = true;
    a[13] = true;
    a[16] = true;
    a[18] = true;
    a[21] = true;
    a[24] = true;
    a[26] = true;
    a[29] = true;
    a
};

#[derive(Clone, Copy, Debug, PartialEq, Eq)]
pub struct Hijri {
    /// astronomical (signed) year: 1 = 1 AH, 0 = 1 BH, -1 = 2 BH ...
    pub year: i64,
    pub month: u8,
    pub day: u8,
    /// true if the (signed) year is a 355-day year
    pub leap: bool,
    /// day of the Hijri year, 1-based
    pub day_of_year: u16,
}

impl Hijri {
    pub fn pre_epoch(&self) -> bool {
        self.year <= 0
    }
    pub fn shown_year(&self) -> u32 {
        if self.year <= 0 {
            (1 - self.year) as u32
        } else {
            self.year as u32
        }
    }
}

pub fn epoch_days() -> i64 {
    days_from_civil(622, 7, 19)
}

pub fn from_civil(y: i64, m: i64, d: i64) -> Hijri {
    let n = days_from_civil(y, m, d) - epoch_days(); // 0 = 1 Muharram 1 AH
    let cycle = n.div_euclid(10631);
    let mut r = n.rem_euclid(10631);
    // years of the cycle are 1..=30
    let mut idx = 1usize;
    loop {
        let len = if LEAP[idx] { 355 } else { 354 };
        if r < len {
            break;
        }
        r -= len;
        idx += 1;
    }
    let leap = LEAP[idx];
    let year = 30 * cycle + idx as i64;
    let day_of_year = (r + 1) as u16;
    let mut month = 1u8;
    loop {
        let len = if month == 12 {
            if leap {
                30
            } else {
                29
            }
        } else if month % 2 == 1 {
            30
        } else {
            29
        };
        if r < len {
            break;
        }
        r -= len;
        month += 1;
    }
    Hijri { year, month, day: (r + 1) as u8, leap, day_of_year }
}

pub fn self_test() -> Result<(), String> {
    // well-known anchors of the civil tabular calendar
    let checks = [
        ((622, 7, 19), (1, 1, 1)),
        ((622, 7, 18), (0, 12, 29)),
        ((2000, 1, 1), (1420, 9, 24)),
        ((2020, 7, 31), (1441, 12, 10)),
        ((1970, 1, 1), (1389, 10, 22)),
        ((2023, 3, 23), (1444, 9, 1)),
    ];
    for ((y, m, d), (hy, hm, hd)) in checks {
        let h = from_civil(y, m, d);
        if (h.year, h.month as i64, h.day as i64) != (hy, hm, hd) {
            return Err(format!("hijri oracle self-test {}-{}-{} -> {:?}", y, m, d, h));
        }
    }
    let total: i64 = (1..=30).map(|i| if LEAP[i] { 355 } else { 354 }).sum();
    if total != 10631 {
        return Err("cycle length".into());
    }
    Ok(())
}
