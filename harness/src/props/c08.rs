//! C08 Fallback policies change only what they name and flag exactly what they replace.

use chrono::{Datelike, NaiveDate};
use islamic_prayer_times::Prayer;
use proptest::prelude::*;
use serde::{Deserialize, Serialize};
use serde_json::json;

use super::common::*;
use crate::engine::{catch, Failure, Prop, Stats, Tier, F};
use crate::gen::{self, ParamSpec, Site, PRAYER_NAMES};
use crate::oracle::ephem;

pub struct C08;

#[derive(Clone, Debug, Hash, PartialEq, Eq, Serialize, Deserialize)]
pub struct Case {
    pub site: Site,
    pub spec: ParamSpec,
    pub date: NaiveDate,
    /// boundary-directed: Some(e) = move the latitude onto the polar-day limit of the date (where Shurooq/Maghrib are
    /// about to stop existing and the night shrinks to nothing), bisected to adjacent f64 values, then step 10^-e deg
    /// back towards the equator (e = 0 means the last valid latitude itself)
    #[serde(default)]
    pub polar_day_edge: Option<u8>,
}

const MAIN4: [(Prayer, usize); 4] = [(Prayer::Shurooq, 2), (Prayer::Dhuhr, 3), (Prayer::Asr, 4), (Prayer::Maghrib, 5)];
const SIX: [(Prayer, usize); 6] =
    [(Prayer::Fajr, 1), (Prayer::Shurooq, 2), (Prayer::Dhuhr, 3), (Prayer::Asr, 4), (Prayer::Maghrib, 5), (Prayer::Isha, 6)];

impl C08 {
    fn polar_day_directed(&self, c: &Case, e: u8, st: &mut Stats) -> Result<(), Failure> {
        let d0 = ephem::dec0(c.date, c.site.gmt.0);
        let sign = if d0 >= 0.0 { 1.0 } else { -1.0 };
        let phi = 90.0 - d0.abs() + 0.833;
        if !(60.0..=69.9).contains(&phi) {
            st.skip("polar_day_limit_outside_60_to_69.9");
            return Ok(());
        }
        let mut cs = c.spec.clone();
        cs.policy = gen::P_NONE;
        let has_sunset = |lat: f64| -> bool {
            let mut s = c.site;
            s.lat = F(lat);
            let tm = compute(&s, &cs, c.date, None);
            tm[&Prayer::Shurooq].is_ok() && tm[&Prayer::Maghrib].is_ok()
        };
        let (mut lo, mut hi) = (sign * (phi - 0.5), sign * (phi + 0.1).min(70.0));
        if !has_sunset(lo) || has_sunset(hi) {
            st.skip("polar_day_bracket_not_found");
            return Ok(());
        }
        for _ in 0..80 {
            let mid = 0.5 * (lo + hi);
            if mid == lo || mid == hi {
                break;
            }
            if has_sunset(mid) {
                lo = mid;
            } else {
                hi = mid;
            }
        }
        let back = if e == 0 { 0.0 } else { 10f64.powf(-(e as f64)) };
        let mut c2 = c.clone();
        c2.site.lat = F(lo - sign * back);
        c2.polar_day_edge = None;
        self.check(&c2, st).map_err(|mut f| {
            f.signature = format!("{}:at-polar-day-limit", f.signature);
            f.observed = format!("{} [latitude {:?}: {} deg inside the polar-day limit of {}]", f.observed, c2.site.lat.0, back, c.date);
            f
        })?;
        st.class("polar_day_limit_directed_done");
        Ok(())
    }
}

impl Prop for C08 {
    type Case = Case;
    fn id(&self) -> &'static str {
        "C08"
    }
    fn cases(&self, tier: Tier) -> u64 {
        tier.pick(400_000, 6_000_000)
    }
    fn max_shrink_iters(&self) -> u32 {
        2000
    }
    fn strategy(&self, _tier: Tier) -> BoxedStrategy<Case> {
        let lat = prop_oneof![
            3 => gen::latitude(70.0),
            4 => (45.0..=70.0f64, any::<bool>()).prop_map(|(l, s)| if s { l } else { -l }),
            1 => (66.0..=70.0f64, any::<bool>()).prop_map(|(l, s)| if s { l } else { -l }),
        ]
        .boxed();
        let iv = || prop_oneof![1 => Just(None), 1 => (1.0..=120.0f64).prop_map(|x| Some(F(x)))];
        let spec = (gen::pick(&gen::NAMED_METHODS), 1u8..15, -66.0..=66.0f64, iv(), iv(), 0u8..4).prop_map(|(method, policy, plat, fi, ii, rounding)| {
            let mut method = method;
            if gen::policy_consumes_intervals(policy) && method >= 7 {
                // quantified over angle-based methods only for these policies
                method = gen::ANGLE_METHODS[(method as usize + policy as usize) % 6];
            }
            let mut s = ParamSpec::plain(method);
            s.policy = policy;
            s.policy_lat = F(plat);
            // all four rounding modes (both runs of a case use the same one)
            s.rounding = rounding;
            if gen::policy_consumes_intervals(policy) || policy == gen::P_MIN_ALWAYS {
                s.fajr_interval = fi;
                if s.intervals().1 == 0.0 {
                    s.isha_interval = ii;
                }
            }
            s
        });
        // in a tenth of the nearest-latitude cases the substitute latitude is within 1e-8..1e-3 deg of the site's own
        // latitude (the borrowed times are then within microseconds..seconds of the conventional ones: a replaced time
        // must still be flagged, an unflagged one must still equal the conventional time exactly); one case in 16 is
        // dedicated to this: a nearest-latitude 'always' policy, unrounded seconds, offset 3e-7..3e-5 deg (borrowed and
        // conventional times 0.04..4 ms apart, i.e. on opposite sides of a second boundary in ~0.1 % of these cases)
        (gen::site_lat(lat, 2.0), spec, gen::date(), 0u8..160, -3.0..=0.0f64, any::<bool>())
            .prop_map(|(site, mut spec, date, k, e, up)| {
                let sgn = if up { 1.0 } else { -1.0 };
                if k < 10 {
                    spec.policy = if k % 2 == 0 { gen::P_NL_ALL } else { gen::P_NL_FI_ALWAYS };
                    spec.rounding = 0;
                    if spec.method >= 7 {
                        spec.method = gen::ANGLE_METHODS[k as usize % 6];
                    }
                    spec.fajr_interval = None;
                    spec.isha_interval = None;
                    let d = 3e-7 * 100f64.powf(-e / 3.0);
                    spec.policy_lat = F((site.lat.0 + sgn * d).clamp(-66.0, 66.0));
                } else if k < 30 && k >= 26 && site.lat.0.abs() <= 66.0 {
                    // substitute latitude exactly equal to the site's own
                    spec.policy_lat = site.lat;
                } else if k < 26 && matches!(spec.policy, gen::P_NL_ALL | gen::P_NL_FI_ALWAYS | gen::P_NL_FI_INV) {
                    let d = 10f64.powf(e * 5.0 / 3.0 - 3.0); // 1e-8 .. 1e-3
                    spec.policy_lat = F((site.lat.0 + sgn * d).clamp(-66.0, 66.0));
                }
                let mut site = site;
                let mut date = date;
                if (60..72).contains(&k) {
                    // polar-night edge with an interval-defined Fajr/Isha: |lat| 66.4..69.6 within ~5 weeks of the winter
                    // solstice of that hemisphere, Umm al-Qurra / fixed Isha or custom intervals, a policy that acts
                    // only on invalid times (or angle-based)
                    let t = (k - 60) as f64 / 11.0;
                    let north = up;
                    site.lat = F((66.4 + 3.2 * ((t * 7.0 + (-e)).fract())) * if north { 1.0 } else { -1.0 });
                    let doy_off = ((-e) / 3.0 * 70.0) as i64 - 35;
                    let base = chrono::NaiveDate::from_ymd_opt(date.year().clamp(1601, 2398), if north { 12 } else { 6 }, 21).unwrap();
                    date = base + chrono::Duration::days(doy_off);
                    if !gen::policy_is_invalid_kind(spec.policy) && spec.policy != gen::P_ANGLE {
                        spec.policy = [gen::P_NL_FI_INV, gen::P_NGD_FI_INV, gen::P_7N_INV, gen::P_7D_INV, gen::P_ANGLE][k as usize % 5];
                    }
                    if !gen::policy_consumes_intervals(spec.policy) {
                        if k % 3 == 0 {
                            spec.method = 7 + (k % 2);
                        } else {
                            spec.isha_interval = Some(F(30.0 + 10.0 * (k % 7) as f64));
                            if k % 2 == 0 {
                                spec.fajr_interval = Some(F(45.0 + 5.0 * (k % 5) as f64));
                            }
                        }
                    }
                }
                Case { site, spec, date, polar_day_edge: None }
            })
            .prop_flat_map(|c| prop_oneof![30 => Just(None), 1 => (0u8..10).prop_map(Some)].prop_map(move |e| Case { polar_day_edge: e, ..c.clone() }))
            .boxed()
    }
    fn self_test(&self) -> Result<(), String> {
        ephem::self_test()
    }
    fn check(&self, c: &Case, st: &mut Stats) -> Result<(), Failure> {
        if let Some(e) = c.polar_day_edge {
            return self.polar_day_directed(c, e, st);
        }
        st.eval();
        let pol = c.spec.policy;
        prime(&c.site, &c.spec, c.date, None, prime_selector(&c.site, c.date));
        let got = compute(&c.site, &c.spec, c.date, None);
        // conventional reference
        let mut cs = c.spec.clone();
        cs.policy = gen::P_NONE;
        if gen::policy_consumes_intervals(pol) {
            cs.fajr_interval = Some(F(0.0));
            cs.isha_interval = Some(F(0.0));
        }
        let conv = match catch(|| compute(&c.site, &cs, c.date, None)) {
            Ok(x) => x,
            Err(_) => {
                st.skip("conventional_call_panics_(belongs_to_C07)");
                return Ok(());
            }
        };
        let ctx = || format!("policy {}: {} | conventional: {}", gen::POLICY_NAMES[pol as usize], gen::fmt_times(&got), gen::fmt_times(&conv));
        // (a) Fajr/Isha-only policies never change Shurooq, Dhuhr, Asr, Maghrib
        if gen::policy_fajr_isha_only(pol) {
            for (p, i) in MAIN4 {
                if got[&p] != conv[&p] {
                    return Err(Failure::new(
                        format!("fajr-isha-policy-changed:{}:{}", PRAYER_NAMES[i], gen::POLICY_NAMES[pol as usize]),
                        format!("{} equal to the conventional entry and unflagged under a Fajr/Isha-only policy", PRAYER_NAMES[i]),
                        ctx(),
                    ));
                }
            }
        }
        // interval-defined Fajr/Isha (Maghrib + n min / Shurooq - n min): on the polar-night sliver where the Sun's
        // upper limb still rises but its centre does not reach the nominal 0 deg event, the conventional time exists
        // (policy None reports Maghrib + n). "Conventionally valid" is taken literally - valid in the conventional
        // result - so an 'only if invalid' policy must return it unchanged and unflagged there too (D12).
        let (lat, gmt) = (c.site.lat.0, c.site.gmt.0);
        let d0 = ephem::dec0(c.date, gmt);
        let (fa, ia, _) = cs.angles();
        let (cfi, cii, _) = cs.intervals();
        let nominal_exists = |angle: f64| -> bool {
            let h = -angle;
            let margin = (h - ephem::min_alt(lat, d0)).min(ephem::max_alt(lat, d0) - h);
            margin >= 0.0
        };
        if (cfi != 0.0 && !nominal_exists(fa) && conv[&Prayer::Fajr].is_ok()) || (cii != 0.0 && !nominal_exists(ia) && conv[&Prayer::Isha].is_ok()) {
            st.class("interval_defined_time_valid_although_its_nominal_angle_event_does_not_exist");
        }
        let all_six_exist = SIX.iter().all(|(p, _)| conv[p].is_ok());
        // (b) 'only if invalid' policies return every conventionally valid Fajr/Isha unchanged and unflagged
        if gen::policy_is_invalid_kind(pol) {
            for (p, i) in [(Prayer::Fajr, 1usize), (Prayer::Isha, 6usize)] {
                if conv[&p].is_ok() {
                    if got[&p] != conv[&p] {
                        return Err(Failure::new(
                            format!("invalid-only-policy-changed-valid:{}:{}", PRAYER_NAMES[i], gen::POLICY_NAMES[pol as usize]),
                            format!("conventionally valid {} returned unchanged and unflagged", PRAYER_NAMES[i]),
                            ctx(),
                        ));
                    }
                }
            }
        }
        // (b') identity on days where all six exist ('invalid' policies and AngleBased)
        if (gen::policy_is_invalid_kind(pol) || pol == gen::P_ANGLE) && all_six_exist {
            for (p, i) in SIX {
                if got[&p] != conv[&p] {
                    return Err(Failure::new(
                        format!("not-identity-on-good-day:{}:{}", PRAYER_NAMES[i], gen::POLICY_NAMES[pol as usize]),
                        "identity on a day where all times exist",
                        ctx(),
                    ));
                }
            }
            st.class("identity_on_all_valid_day_checked");
        }
        // (c) a time not flagged extreme equals the conventional time (so a replaced time is flagged); half-of-night exempt
        if pol != gen::P_HALF_ALWAYS && pol != gen::P_HALF_INV {
            for (p, i) in SIX {
                if let Ok(g) = got[&p] {
                    if !g.extreme && got[&p] != conv[&p] {
                        return Err(Failure::new(
                            format!("unflagged-differs-from-conventional:{}:{}", PRAYER_NAMES[i], gen::POLICY_NAMES[pol as usize]),
                            format!("{} either flagged extreme or equal to the conventional entry", PRAYER_NAMES[i]),
                            ctx(),
                        ));
                    }
                }
            }
            // Imsaak: an unflagged Imsaak is the conventional Imsaak (same validity, same time). Not asserted for the
            // policies that consume the intervals (their conventional reference zeroes what Imsaak is derived from).
            if !gen::policy_consumes_intervals(pol) {
                if let Ok(g) = got[&Prayer::Imsaak] {
                    if !g.extreme && got[&Prayer::Imsaak] != conv[&Prayer::Imsaak] {
                        return Err(Failure::new(
                            format!("unflagged-differs-from-conventional:Imsaak:{}", gen::POLICY_NAMES[pol as usize]),
                            "Imsaak either flagged extreme or equal to the conventional entry",
                            ctx(),
                        ));
                    }
                }
            }
        }
        let some_missing = SIX.iter().any(|(p, _)| conv[p].is_err());
        if some_missing || gen::policy_is_always(pol) {
            st.nontrivial(c);
        }
        if some_missing {
            st.class("day_with_missing_time");
        }
        if gen::policy_is_always(pol) {
            st.class("always_policy");
        } else {
            st.class("invalid_only_or_angle_based_policy");
        }
        if cfi != 0.0 || cii != 0.0 {
            st.class("interval_defined_fajr_or_isha");
        }
        if st.want_sample() {
            st.sample(json!({"case": c, "result": gen::fmt_times(&got), "conventional": gen::fmt_times(&conv)}));
        }
        Ok(())
    }
    fn post(&self, tier: Tier, seed: u64) -> (serde_json::Value, Option<(Case, Failure)>) {
        if tier != Tier::Thorough {
            return (json!({"fuzz": "not part of the quick tier"}), None);
        }
        crate::fuzzrun::campaign("c08_policy", seed, 150_000, 96, crate::decode::c08_case, fuzz_check)
    }
    fn rule(&self) -> String {
        "generated (site |lat|<=70 with half the mass in 45-70, GMT within 2 h, 8 named methods x 14 policies, substitute latitude in [-66,66], date mixture; interval-consuming policies (half-of-night, minutes-from-maghrib 'invalid') only with angle-based methods, optionally with Fajr/Isha intervals in [1,120]). Each case is compared with the same call under no policy. One case in 16 is a nearest-latitude 'always' policy with the substitute latitude 3e-7..3e-5 deg from the site's own, further ones within 1e-8..1e-3 deg or exactly equal; one in 31 has the latitude bisected onto the polar-day limit; 3 in 40 sit on the polar-night edge with an interval-defined Fajr/Isha under an 'only if invalid' policy or angle-based; all four rounding modes; every case is preceded by a priming call with a sibling input. Non-trivial = a day on which some time is missing conventionally, or an 'always' policy; distinct by hash of the case".into()
    }
    fn assumptions(&self) -> Vec<String> {
        vec![
            "conventional reference = same call with ExtremeLatitudeMethod::None; for policies that consume the Fajr/Isha intervals as fallback amounts the reference also zeroes those intervals".into(),
            "'conventionally valid' = Ok in the no-policy result, also for an interval-defined Fajr/Isha whose nominal 0-degree event does not exist (polar-night edge; a dedicated class of 3/40 of the cases puts |lat| 66.4-69.6 within five weeks of the winter solstice with Umm al-Qurra / fixed Isha / custom intervals)".into(),
            "clause (c) is asserted for all seven entries; for Imsaak not under the policies that consume the intervals".into(),
        ]
    }
}

/// entry point of the libFuzzer target `c08_policy` (and of the re-check of its artifacts)
pub fn fuzz_check(c: &Case, st: &mut Stats) -> Result<(), Failure> {
    C08.check(c, st)
}
