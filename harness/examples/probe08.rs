use chrono::NaiveDate;
use ipt_verif::engine::F;
use ipt_verif::gen::{self, ParamSpec, Site};
use ipt_verif::props::common::compute;
fn main() {
    // polar-night edge, interval Isha methods
    let d = NaiveDate::from_ymd_opt(2023, 12, 10).unwrap();
    for mi in 0..gen::METHODS.len() as u8 {
        let mut lat = 66.0;
        while lat < 68.5 {
            let site = Site { lat: F(lat), lon: F(0.0), elev: F(0.0), gmt: F(0.0) };
            let s0 = ParamSpec::plain(mi);
            let base = compute(&site, &s0, d, None);
            for pol in [gen::P_7N_INV, gen::P_NGD_FI_INV, gen::P_MIN_INV, gen::P_HALF_INV, gen::P_NL_FI_INV, gen::P_7D_INV] {
                let mut s1 = ParamSpec::plain(mi); s1.policy = pol;
                let r = compute(&site, &s1, d, None);
                let bi = base[&gen::PRAYERS[6]]; let ri = r[&gen::PRAYERS[6]];
                if let (Ok(b), Ok(x)) = (bi, ri) {
                    if x.extreme || b.time != x.time { println!("method {} lat {:.3} pol {}: None-> {} | {}", mi, lat, pol, gen::fmt_times(&base), gen::fmt_times(&r)); }
                }
            }
            lat += 0.01;
        }
    }
}
